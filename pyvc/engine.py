"""Forward symbolic executor over the real function bodies: generates verification conditions.

Every obligation is (name, assumptions, goal).  The executor forks at branches; loops are cut at the
invariant given by the sidecar contract; calls are replaced by the callee's contract (modular), by the
callee's real body (`inline`), or by a trusted model (builtins).  Exceptions are path outcomes.
"""
import ast
import fractions
import z3
from .kinds import *
from . import ops
from .ops import (Pending, num_binop, num_cmp, b_and, b_or, b_not, b_implies, v_ite, v_eq, as_view, v_len,
                  norm_index, v_slice, v_concat, v_append, v_store, conc_seq_view, range_view)
from . import source
from .contract import Contract, Loop, AbsMap

BUILTIN_EXC_BASES = {
    'BaseException': None, 'Exception': 'BaseException', 'ArithmeticError': 'Exception',
    'ZeroDivisionError': 'ArithmeticError', 'OverflowError': 'ArithmeticError', 'LookupError': 'Exception',
    'IndexError': 'LookupError', 'KeyError': 'LookupError', 'ValueError': 'Exception', 'TypeError': 'Exception',
    'AssertionError': 'Exception', 'AttributeError': 'Exception', 'StopIteration': 'Exception',
    'RuntimeError': 'Exception', 'NotImplementedError': 'RuntimeError', 'OSError': 'Exception',
    'IOError': 'Exception', 'EOFError': 'Exception', 'UnicodeDecodeError': 'ValueError',
    'UnicodeError': 'ValueError', 'struct.error': 'Exception', 'MemoryError': 'Exception',
    'GeneratorExit': 'BaseException', 'KeyboardInterrupt': 'BaseException', 'RecursionError': 'RuntimeError',
}


def _conjuncts(t):
    out = []
    stack = [t]
    while stack:
        x = stack.pop()
        if z3.is_and(x):
            stack.extend(x.children())
        else:
            out.append(x)
    return out


_quant_cache = {}


def _has_quant(t):
    i = t.get_id()
    r = _quant_cache.get(i)
    if r is None:
        r = False
        stack = [t]
        seen = set()
        while stack:
            x = stack.pop()
            if x.get_id() in seen:
                continue
            seen.add(x.get_id())
            if z3.is_quantifier(x):
                r = True
                break
            stack.extend(x.children())
        _quant_cache[i] = (r, t)
        return r
    return r[0]


class HObj:
    __slots__ = ('cls', 'fields')

    def __init__(self, cls, fields):
        self.cls = cls
        self.fields = fields


class State:
    def __init__(self):
        self.env = {}
        self.heap = {}
        self.pc = []
        self.out = None          # generator output view
        self.cur_exc = None
        self.wb = []             # pending write-backs of materialised view elements
        self.dead = False

    def copy(self):
        s = State()
        s.env = dict(self.env)
        s.heap = {k: HObj(o.cls, dict(o.fields)) for k, o in self.heap.items()}
        s.pc = list(self.pc)
        s.out = self.out
        s.cur_exc = self.cur_exc
        s.wb = list(self.wb)
        return s

    def assume(self, c):
        c = simp(c)
        if c is True:
            return self
        if c is False:
            self.dead = True
            return self
        self.pc.append(to_bool_term(c))
        return self

    def new_obj(self, cls, fields=None):
        oid = uid('o')
        self.heap[oid] = HObj(cls, dict(fields or {}))
        return Ref(oid, cls)


class Obligation:
    def __init__(self, name, pc, goal, func, line, kind, note=''):
        self.name = name
        self.pc = pc
        self.goal = goal
        self.func = func
        self.line = line
        self.kind = kind
        self.note = note
        self.expect_fail = False     # canaries


class AbsSet:
    """A set of values known only through its membership predicate (and whether it is empty)."""

    def __init__(self, mem, empty):
        self.mem = mem          # python callable: element term -> Bool
        self.empty = empty      # Bool term


class DictVal:
    def __init__(self, d):
        self.d = d


class SetVal:
    def __init__(self, items):
        self.items = list(items)


class StructVal:
    def __init__(self, fmt):
        self.fmt = fmt


class ClassVal:
    def __init__(self, mod, name):
        self.mod = mod
        self.name = name


class UserFn:
    def __init__(self, mod, qual, node, selfv=None, closure=None):
        self.mod = mod
        self.qual = qual
        self.node = node
        self.selfv = selfv
        self.closure = closure


class ModuleVal:
    def __init__(self, dotted):
        self.dotted = dotted


class TypeVal:
    def __init__(self, name):
        self.name = name


class Frame:
    def __init__(self, mod, qual, contract):
        self.mod = mod
        self.qual = qual
        self.contract = contract
        self.loop_nodes = []
        self.old = None
        self.sites = {}


OPS = {ast.Add: '+', ast.Sub: '-', ast.Mult: '*', ast.Div: '/', ast.FloorDiv: '//', ast.Mod: '%', ast.Pow: '**',
       ast.BitAnd: '&', ast.BitOr: '|', ast.BitXor: '^', ast.LShift: '<<', ast.RShift: '>>'}
CMPS = {ast.Lt: '<', ast.LtE: '<=', ast.Gt: '>', ast.GtE: '>=', ast.Eq: '==', ast.NotEq: '!='}

NOOP_CALL_PREFIXES = ('logging.', 'logger.', 'print')


class Engine:
    def __init__(self, registry, prop='?'):
        self.reg = registry
        self.prop = prop
        self.obligations = []
        self.frames = []
        self.sinks = []
        self.pure = 0
        self.dry = 0
        self.classes = {}        # class name -> (mod, ClassDef)
        self.trusted_used = set()
        self.assumptions_used = set()
        self.functions_seen = set()
        self.depth = 0
        self.builtins = {}
        from . import builtins as _b
        _b.install(self)

    # ------------------------------------------------------------ infrastructure
    @property
    def frame(self):
        return self.frames[-1]

    def oblige(self, st, kind, goal, node=None, note=''):
        if self.dry:
            return
        goal = simp(goal)
        if goal is True:
            return
        fr = self.frame
        line = getattr(node, 'lineno', 0) if node is not None else 0
        name = '%s:%s/%s' % (fr.mod.relpath.split('/')[-1], fr.contract.name if fr.contract else fr.qual, kind)
        if goal is False:
            goals = [z3.BoolVal(False)]
        else:
            # conjuncts that are literally among the hypotheses are discharged syntactically (a callee precondition
            # that is the caller's own assumption); the others become separate verification conditions
            known = set()
            for a in st.pc:
                for c in _conjuncts(a):
                    known.add(c.get_id())
            goals = [c for c in _conjuncts(to_bool_term(goal)) if c.get_id() not in known]
            if not goals:
                self.syntactic_discharges = getattr(self, 'syntactic_discharges', 0) + 1
                goals = [z3.BoolVal(True)]
        for g in goals:
            self.obligations.append(Obligation(name, list(st.pc), g, fr.qual, line, kind.split('#')[0], note))

    def site(self, node, kind):
        """Stable name of the source site of an obligation: the pre-order ordinal of the statement that contains
        the line, within the function being verified (independent of path exploration order)."""
        fr = self.frame
        line = getattr(node, 'lineno', 0)
        top = self.frames[0] if self.frames else fr
        for f in self.frames:
            if f.contract is not None:
                top = f
                break
        tbl = getattr(top, '_stmt_rank', None)
        if tbl is None:
            tbl = {}
            fnode = top.mod.functions.get(top.qual) if hasattr(top.mod, 'functions') else None
            if fnode is not None:
                k = 0
                for n in ast.walk(fnode):
                    pass
                stmts = sorted({(n.lineno, n.col_offset) for n in ast.walk(fnode) if isinstance(n, ast.stmt)})
                for i, key in enumerate(stmts):
                    tbl.setdefault(key[0], i)
            top._stmt_rank = tbl
        if line in tbl:
            return '%s#%d' % (kind, tbl[line])
        # a line of an inlined callee (another function): relative to that callee
        fn = fr.mod.functions.get(fr.qual) if hasattr(fr.mod, 'functions') else None
        if fn is not None and hasattr(fn, 'lineno'):
            return '%s#%s+%d' % (kind, fr.qual.split('.')[-1], line - fn.lineno)
        return '%s#L%d' % (kind, line)

    def throw(self, st, exc_cls, node=None):
        """Record an exceptional outcome for state st (consumed by the enclosing statement)."""
        if self.pure:
            return
        if st.dead:
            return
        st.cur_exc = ExcVal(exc_cls)
        self.sinks[-1].append((st, ExcVal(exc_cls), getattr(node, 'lineno', 0)))

    def fork_exc(self, st, ok_cond, exc_cls, node):
        """Implicit exception site: continue with ok_cond assumed, throw exc_cls when it fails."""
        ok = simp(ok_cond)
        if ok is True or self.pure:
            return st
        if ok is not False:
            bad = st.copy().assume(b_not(ok))
            if not bad.dead:
                self.throw(bad, exc_cls, node)
        else:
            self.throw(st.copy(), exc_cls, node)
        st.assume(ok)
        return st

    def is_subclass(self, cls, base):
        seen = set()
        while cls is not None and cls not in seen:
            if cls == base:
                return True
            seen.add(cls)
            if cls in BUILTIN_EXC_BASES:
                cls = BUILTIN_EXC_BASES[cls]
                continue
            ent = self.find_class(cls)
            if ent is None:
                return base in ('Exception', 'BaseException') and ('Exception' in cls or cls.endswith('Error'))
            mod, node = ent
            nxt = None
            for b in node.bases:
                nxt = ast.unparse(b).split('.')[-1] if not ast.unparse(b).startswith('struct') else ast.unparse(b)
                break
            cls = nxt
        return False

    def find_class(self, name, mod=None):
        if name in self.classes:
            return self.classes[name]
        mods = [mod] if mod else []
        mods += list(source._modules.values())
        for m in mods:
            if m is None:
                continue
            if name in m.classes:
                self.classes[name] = (m, m.classes[name])
                return self.classes[name]
            imp = m.imports.get(name)
            if imp and imp[0] == 'from':
                rp = source.module_relpath(imp[1])
                if rp:
                    m2 = source.load(rp)
                    if imp[2] in m2.classes:
                        self.classes[name] = (m2, m2.classes[imp[2]])
                        return self.classes[name]
                    for dotted in reversed(getattr(m2, 'star_imports', [])):
                        rp3 = source.module_relpath(dotted)
                        if rp3:
                            m3 = source.load(rp3)
                            if imp[2] in m3.classes:
                                self.classes[name] = (m3, m3.classes[imp[2]])
                                return self.classes[name]
                rp = source.module_relpath(imp[1] + '.' + imp[2]) if imp[1] else None
                if rp:
                    m2 = source.load(rp)       # `from package import module`: a class named like the module
                    if name in m2.classes:
                        self.classes[name] = (m2, m2.classes[name])
                        return self.classes[name]
        # a class of any module imported (as a module) by a loaded module
        for m in list(source._modules.values()):
            for imp in m.imports.values():
                dotted = imp[1] if imp[0] == 'module' else (imp[1] + '.' + imp[2] if imp[1] else imp[2])
                rp = source.module_relpath(dotted)
                if rp and rp not in source._modules:
                    m2 = source.load(rp)
                    if name in m2.classes:
                        self.classes[name] = (m2, m2.classes[name])
                        return self.classes[name]
        return None

    def find_method(self, cls, name):
        """(mod, qualname, node) of method `name` of class `cls`, following base classes."""
        seen = set()
        while cls and cls not in seen:
            seen.add(cls)
            ent = self.find_class(cls)
            if ent is None:
                return None
            mod, node = ent
            q = '%s.%s' % (node.name, name)
            if q in mod.functions:
                return mod, q, mod.functions[q]
            if node.name + '.' + name in mod.assigns:
                return mod, node.name + '.' + name, None
            nxt = None
            for b in node.bases:
                bn = ast.unparse(b).split('.')[-1]
                if self.find_class(bn, mod):
                    nxt = bn
                    break
            cls = nxt
        return None

    # ------------------------------------------------------------ spec evaluation
    def spec(self, text, st, extra=None, old=None):
        """Evaluate a contract expression (string) to a value, in pure mode."""
        try:
            node = ast.parse(text.strip(), mode='eval').body
        except SyntaxError as e:
            raise ContractError('bad spec expression %r: %s' % (text, e))
        st2 = st
        saved_env = st.env
        if extra or st.out is not None:
            st.env = dict(st.env)
            if st.out is not None:
                st.env['out'] = st.out
            st.env.update(extra or {})
        self.pure += 1
        saved_old = getattr(self, '_old', None)
        if old is not None:
            self._old = old
        try:
            rs = self.ev(node, st2)
        finally:
            self.pure -= 1
            st.env = saved_env
            self._old = saved_old
        if len(rs) != 1:
            raise Unsupported('spec expression forked: %s' % text)
        return rs[0][1]

    def spec_bool(self, text, st, extra=None, old=None):
        v = self.spec(text, st, extra, old)
        return self.truth(v)

    # ------------------------------------------------------------ truthiness
    def truth(self, v):
        if isinstance(v, bool):
            return v
        if v is None:
            return False
        if is_z3(v):
            s = v.sort()
            if s == z3.BoolSort():
                return v
            if s == z3.IntSort():
                return v != 0
            if s == z3.RealSort():
                return v != 0
            if s == z3.StringSort():
                return z3.Length(v) > 0
        if isinstance(v, (int, float, fractions.Fraction)):
            return v != 0
        if isinstance(v, (str, bytes)):
            return len(v) > 0
        if isinstance(v, Tup):
            return len(v.items) > 0
        if isinstance(v, View):
            return simp(num_cmp('>', v.length, 0))
        if isinstance(v, Opt):
            return b_and(b_not(v.isnone), self.truth(v.val))
        if isinstance(v, (Ref, Rec)):
            # objects: __len__ / __bool__ if defined
            cls = v.cls
            for m in ('__bool__', '__len__'):
                ent = self.find_method(cls, m)
                if ent and ent[2] is not None:
                    raise Unsupported('truth of object with %s' % m)
            return True
        if hasattr(self, 'Opaque') and isinstance(v, self.Opaque):
            return z3.Bool(uid('opaque_truth'))
        if isinstance(v, (Fn, UserFn, ClassVal, DictVal, SetVal)):
            if isinstance(v, DictVal):
                return len(v.d) > 0
            return True
        raise Unsupported('truth(%r)' % (v,))

    # ------------------------------------------------------------ expressions
    def ev(self, node, st):
        """Evaluate expression; returns list of (state, value).  Exceptional paths go to the sink."""
        m = getattr(self, 'ev_' + node.__class__.__name__, None)
        eff = getattr(self, 'effect', None)
        if eff is None or self.pure:
            if m is None:
                raise Unsupported('expression %s at line %s' % (node.__class__.__name__, getattr(node, 'lineno', '?')))
            return m(node, st)
        # exception-effect mode: whatever the model cannot track is an untracked value whose computation may raise
        if isinstance(node, (ast.Name, ast.Constant)):
            return m(node, st)
        if isinstance(node, ast.Call) and ast.unparse(node.func) in eff.no_raise_calls and not self._tracked_call(node):
            return self.untracked(node, st, may_raise=False)
        try:
            if m is None:
                raise Unsupported('expression')
            rs = m(node, st)
        except ContractError:
            raise
        except (Unsupported, AttributeError, TypeError, KeyError, IndexError, ValueError, z3.Z3Exception, RecursionError):
            return self.untracked(node, st)
        for s, v in rs:
            if isinstance(v, self.Opaque) and not isinstance(node, (ast.Compare, ast.BoolOp, ast.IfExp)):
                self.maybe_raise(s, node)
        return rs

    def _tracked_call(self, node):
        return ast.unparse(node.func) in self.builtins

    def maybe_raise(self, st, node):
        eff = getattr(self, 'effect', None)
        if eff is None or self.pure or st.dead:
            return
        if isinstance(node, ast.Call) and ast.unparse(node.func) in eff.no_raise_calls:
            self.assumptions_used.add('%s: call of %s is assumed to raise nothing' % (eff.func, ast.unparse(node.func)))
            return
        self.throw(st.copy(), 'Exception', node)

    def untracked(self, node, st, may_raise=True):
        """Result of an expression the model does not track: may raise Exception (unless whitelisted), and every mutable
        local it mentions is untracked afterwards (an unknown callee may have changed it)."""
        if may_raise:
            self.maybe_raise(st, node)
        else:
            self.assumptions_used.add('%s: call of %s is assumed to raise nothing' % (self.effect.func, ast.unparse(node.func)))
        for n in ast.walk(node):
            if isinstance(n, ast.Name) and n.id in st.env and isinstance(st.env[n.id], (View, Ref, DictVal, SetVal)):
                st.env[n.id] = self.Opaque()
        return [(st, self.Opaque())]

    def ev_seq(self, nodes, st):
        """Evaluate several expressions left to right; list of (state, [values])."""
        rs = [(st, [])]
        for n in nodes:
            nxt = []
            for s, vs in rs:
                for s2, v in self.ev(n, s):
                    nxt.append((s2, vs + [v]))
            rs = nxt
        return rs

    def ev_Constant(self, node, st):
        v = node.value
        if isinstance(v, float):
            v = fractions.Fraction(v)
        if v is Ellipsis:
            raise Unsupported('Ellipsis')
        return [(st, v)]

    def ev_Name(self, node, st):
        return [(st, self.lookup(node.id, st, node))]

    def lookup(self, name, st, node=None):
        if name in st.env:
            return st.env[name]
        fr = self.frame
        for f in reversed(self.frames):
            if f.contract is not None and name in getattr(f.contract, 'globals_', {}):
                return f.contract.globals_[name]
        v = self.module_name(fr.mod, name)
        if v is not NotImplemented:
            return v
        cctx = getattr(fr, 'class_ctx', None)
        if cctx and fr.mod is not None and '%s.%s' % (cctx, name) in fr.mod.assigns:
            return self.module_const(fr.mod, '%s.%s' % (cctx, name))
        if name in self.reg.spec_funcs:
            return UserFn(None, name, self.reg.spec_funcs[name])
        if name in self.builtins:
            return self.builtins[name]
        if name in BUILTIN_EXC_BASES:
            return TypeVal(name)
        raise Unsupported('unbound name %r at line %s in %s' % (name, getattr(node, 'lineno', '?'), fr.qual))

    def module_name(self, mod, name):
        if mod is None:
            return NotImplemented
        if name in mod.functions and '.' not in name:
            return UserFn(mod, name, mod.functions[name])
        if name in mod.classes:
            return ClassVal(mod, name)
        if name in mod.assigns:
            return self.module_const(mod, name)
        if name in mod.imports:
            imp = mod.imports[name]
            if imp[0] == 'module':
                # `import a.b.c` binds the top package `a`; `import a.b.c as x` binds the module itself
                return ModuleVal(name if name == imp[1].split('.')[0] else imp[1])
            rp = source.module_relpath(imp[1])
            if rp is not None and rp != mod.relpath:       # (`from . import x` inside a package's __init__ names a submodule)
                m2 = source.load(rp)
                v = self.module_name(m2, imp[2])
                if v is not NotImplemented:
                    return v
            rp2 = source.module_relpath(imp[1] + '.' + imp[2]) if imp[1] else None
            if rp2 is not None:
                return ModuleVal(imp[1] + '.' + imp[2])
            return ModuleVal(imp[1] + '.' + imp[2] if imp[1] else imp[2])
        # names that arrive through `from m import *` (the last star import that defines the name wins; compiled
        # extension modules have no Python source and are skipped: assumption register 7)
        for dotted in reversed(getattr(mod, 'star_imports', [])):
            rp = source.module_relpath(dotted)
            if rp is not None and rp != mod.relpath:
                v = self.module_name(source.load(rp), name)
                if v is not NotImplemented:
                    return v
        return NotImplemented

    _const_cache = {}

    def module_const(self, mod, name):
        key = (mod.relpath, name)
        if key in self._const_cache:
            return self._const_cache[key]
        node = mod.assigns[name]
        st = State()
        fr = Frame(mod, '<module>', None)
        if '.' in name:
            fr.class_ctx = name.split('.')[0]
        self.frames.append(fr)
        self.sinks.append([])
        self.pure += 1
        try:
            try:
                rs = self.ev(node, st)
            except Unsupported:
                rs = [(st, self.Opaque())]     # a module constant the model does not track
        finally:
            self.pure -= 1
            self.sinks.pop()
            self.frames.pop()
        if len(rs) != 1:
            raise Unsupported('module constant %s' % name)
        self._const_cache[key] = rs[0][1]
        return rs[0][1]

    def ev_Tuple(self, node, st):
        if any(isinstance(e, ast.Starred) for e in node.elts):
            raise Unsupported('starred tuple')
        return [(s, Tup(vs)) for s, vs in self.ev_seq(node.elts, st)]

    def ev_List(self, node, st):
        return [(s, conc_seq_view(vs, None, 'list')) for s, vs in self.ev_seq(node.elts, st)]

    def ev_Set(self, node, st):
        return [(s, SetVal(vs)) for s, vs in self.ev_seq(node.elts, st)]

    def ev_Dict(self, node, st):
        out = []
        for s, ks in self.ev_seq(node.keys, st):
            for s2, vs in self.ev_seq(node.values, s):
                d = {}
                for k, v in zip(ks, vs):
                    if isinstance(k, Tup):
                        k = tuple(k.items)
                    if isinstance(k, fractions.Fraction):
                        k = float(k)
                    d[k] = v
                out.append((s2, DictVal(d)))
        return out

    def ev_JoinedStr(self, node, st):
        # f'{name}suffix' over string-valued names (no format spec / conversion): exact concatenation.
        # Every other f-string (messages) is an opaque string.
        if len(node.values) == 1 and isinstance(node.values[0], ast.FormattedValue) and node.values[0].format_spec is not None \
                and node.values[0].conversion == -1 and isinstance(node.values[0].format_spec, ast.JoinedStr) and getattr(self, 'effect', None) is None:
            # f'{value:{width}.0f}': the text is an uninterpreted function (named after the literal skeleton of the format
            # specification) of the value and of the embedded expressions
            fv = node.values[0]
            skeleton, emb = '', []
            for p_ in fv.format_spec.values:
                if isinstance(p_, ast.Constant) and isinstance(p_.value, str):
                    skeleton += p_.value
                elif isinstance(p_, ast.FormattedValue) and p_.format_spec is None and p_.conversion == -1:
                    skeleton += '{}'
                    emb.append(p_.value)
                else:
                    skeleton = None
                    break
            if skeleton is not None:
                out = []
                self.assumptions_used.add("the text of f'{value:spec}' is an uninterpreted function of (the literal skeleton of spec, value, embedded "
                                          "width / precision expressions): which characters CPython prints is not modelled")
                for s, vals in self.ev_seq([fv.value] + emb, st):
                    try:
                        out.append((s, self.fmt_app(skeleton, vals[0], list(vals[1:]))))
                    except Unsupported:
                        out.append((s, z3.String(uid('fstr'))))
                return out
        parts = []
        for v in node.values:
            if isinstance(v, ast.Constant) and isinstance(v.value, str):
                parts.append(v.value)
            elif isinstance(v, ast.FormattedValue) and v.format_spec is None and v.conversion == -1 and isinstance(v.value, ast.Name) \
                    and v.value.id in st.env and (isinstance(st.env[v.value.id], str) or (is_z3(st.env[v.value.id]) and z3.is_string(st.env[v.value.id]))):
                parts.append(st.env[v.value.id])
            else:
                parts = None
                break
        if parts:
            if all(isinstance(x, str) for x in parts):
                return [(st, ''.join(parts))]
            terms = [z3.StringVal(x) if isinstance(x, str) else x for x in parts if not (isinstance(x, str) and x == '')]
            return [(st, terms[0] if len(terms) == 1 else z3.Concat(*terms))]
        return [(st, z3.String(uid('fstr')))]

    def ev_UnaryOp(self, node, st):
        out = []
        for s, v in self.ev(node.operand, st):
            if isinstance(node.op, ast.Not):
                out.append((s, simp(b_not(self.truth(v)))))
            elif isinstance(node.op, ast.USub):
                if isinstance(v, (int, fractions.Fraction)):
                    out.append((s, -v))
                elif is_intlike(v):
                    r = -to_int(v)
                    ops.set_tz(r, ops.get_tz(v))
                    out.append((s, r))
                else:
                    out.append((s, -to_real(v)))
            elif isinstance(node.op, ast.UAdd):
                out.append((s, v))
            elif isinstance(node.op, ast.Invert):
                out.append((s, num_binop('-', num_binop('*', v, -1, Pending()), 1, Pending())))
            else:
                raise Unsupported('unary op')
        return out

    def ev_BoolOp(self, node, st):
        is_and = isinstance(node.op, ast.And)
        if self.pure:
            vals = []
            for n in node.values:
                rs = self.ev(n, st)
                vals.append(self.truth(rs[0][1]))
            return [(st, simp(b_and(*vals) if is_and else b_or(*vals)))]
        # program mode: short circuit by forking; value is the deciding operand
        results = []
        pending = [(st, None)]
        for idx, n in enumerate(node.values):
            nxt = []
            last = idx == len(node.values) - 1
            for s, _ in pending:
                for s2, v in self.ev(n, s):
                    if last:
                        results.append((s2, v))
                        continue
                    t = simp(self.truth(v))
                    if t is True or t is False:
                        if t == is_and:
                            nxt.append((s2, v))
                        else:
                            results.append((s2, v))
                        continue
                    s_stop = s2.copy().assume(b_not(t) if is_and else t)
                    s_go = s2.assume(t if is_and else b_not(t))
                    if not s_stop.dead and self.feasible(s_stop):
                        results.append((s_stop, (False if is_and else True) if is_boollike(v) else v))
                    if not s_go.dead and self.feasible(s_go):
                        nxt.append((s_go, v))
            pending = nxt
        return results

    def ev_IfExp(self, node, st):
        out = []
        for s, c in self.ev(node.test, st):
            t = simp(self.truth(c))
            if t is True:
                out += self.ev(node.body, s)
            elif t is False:
                out += self.ev(node.orelse, s)
            elif self.pure:
                a = self.ev(node.body, s)[0][1]
                b = self.ev(node.orelse, s)[0][1]
                out.append((s, v_ite(t, a, b)))
            else:
                s1 = s.copy().assume(t)
                s2 = s.assume(b_not(t))
                if not s1.dead:
                    out += self.ev(node.body, s1)
                if not s2.dead:
                    out += self.ev(node.orelse, s2)
        return out

    def ev_Compare(self, node, st):
        out = []
        for s, vs in self.ev_seq([node.left] + list(node.comparators), st):
            conj = []
            for op, a, b in zip(node.ops, vs, vs[1:]):
                conj.append(self.compare(op, a, b, s, node))
            out.append((s, simp(b_and(*conj))))
        return out

    def compare(self, op, a, b, st, node):
        if isinstance(a, self.Opaque) or isinstance(b, self.Opaque):
            return z3.Bool(uid('untracked_cmp'))      # nothing is known about a comparison with an untracked value
        if isinstance(op, (ast.Is, ast.IsNot)):
            if a is None or b is None or isinstance(a, Opt) or isinstance(b, Opt):
                r = v_eq(a, b) if (a is None or b is None) else None
                if r is None:
                    raise Unsupported('is on optionals')
            elif isinstance(a, bool) or isinstance(b, bool):
                r = v_eq(a, b)
            elif isinstance(a, Ref) and isinstance(b, Ref):
                r = a.oid == b.oid
            elif isinstance(a, TypeVal) and isinstance(b, TypeVal):
                r = a.name == b.name
            else:
                raise Unsupported('is on %r, %r' % (a, b))
            return r if isinstance(op, ast.Is) else b_not(r)
        if isinstance(op, (ast.In, ast.NotIn)):
            r = self.contains(b, a)
            return r if isinstance(op, ast.In) else b_not(r)
        o = CMPS[type(op)]
        if isinstance(a, TypeVal) or isinstance(b, TypeVal):
            na = a.name if isinstance(a, (TypeVal, Fn)) else getattr(a, 'name', None)
            nb = b.name if isinstance(b, (TypeVal, Fn)) else getattr(b, 'name', None)
            if na is None or nb is None:
                raise Unsupported('type comparison')
            r = na == nb
            return r if o == '==' else (not r)
        if o == '==':
            return v_eq(a, b)
        if o == '!=':
            return b_not(v_eq(a, b))
        if isinstance(a, Opt) or isinstance(b, Opt):
            conds = [x.isnone for x in (a, b) if isinstance(x, Opt)]
            if not self.pure:
                self.fork_exc(st, b_not(b_or(*conds)), 'TypeError', node)
            a = a.val if isinstance(a, Opt) else a
            b = b.val if isinstance(b, Opt) else b
        if a is None or b is None:
            if self.pure:
                return z3.Bool(uid('undef'))
            self.throw(st.copy(), 'TypeError', node)
            st.dead = True
            return False
        if isinstance(a, Tup) and isinstance(b, Tup):
            raise Unsupported('tuple ordering')
        return num_cmp(o, a, b)

    def contains(self, container, x):
        if isinstance(container, AbsSet):
            return container.mem(x)
        if isinstance(container, AbsMap):
            return self.absmap_funcs(container)(to_int(x))
        if isinstance(container, Tup):
            return b_or(*[v_eq(x, y) for y in container.items])
        if isinstance(container, SetVal):
            return b_or(*[v_eq(x, y) for y in container.items])
        if isinstance(container, DictVal):
            return b_or(*[v_eq(x, self.lift_key(k)) for k in container.d])
        if isinstance(container, (bytes, View)):
            v = as_view(container)
            if is_conc_int(v.length):
                return b_or(*[v_eq(x, v.get(i)) for i in range(v.length)])
            i = z3.Int(uid('ini'))
            return z3.Exists([i], z3.And(i >= 0, i < to_int(v.length), to_bool_term(v_eq(x, v.get(i)))))
        if is_strlike(container) and is_strlike(x):
            if isinstance(container, str) and isinstance(x, str):
                return x in container
            return z3.Contains(to_str_term(container), to_str_term(x))
        raise Unsupported('in %r' % (container,))

    def lift_key(self, k):
        if isinstance(k, tuple):
            return Tup(k)
        if isinstance(k, float):
            return fractions.Fraction(k)
        return k

    def ev_BinOp(self, node, st):
        out = []
        for s, (a, b) in self.ev_seq([node.left, node.right], st):
            for s2, v in self.binop(OPS[type(node.op)], a, b, s, node):
                out.append((s2, v))
        return out

    def binop(self, op, a, b, st, node):
        # sequences
        if op == '+' and (isinstance(a, (View, bytes, Tup)) and isinstance(b, (View, bytes, Tup))):
            if isinstance(a, Tup) and isinstance(b, Tup):
                return [(st, Tup(a.items + b.items))]
            if isinstance(a, bytes) and isinstance(b, bytes):
                return [(st, a + b)]
            return [(st, v_concat(a, b))]
        if op == '*' and (isinstance(a, (View, bytes)) and is_intlike(b) or isinstance(b, (View, bytes)) and is_intlike(a)):
            sv, n = (a, b) if isinstance(a, (View, bytes)) else (b, a)
            if isinstance(sv, bytes) and is_conc_int(n):
                return [(st, sv * n)]
            sv = as_view(sv)
            if is_conc_int(sv.length) and sv.length == 1:
                el = sv.get(0)
                n0 = simp(n)
                ln = max(n0, 0) if is_conc_int(n0) else z3.If(to_int(n0) < 0, z3.IntVal(0), to_int(n0))
                return [(st, View(ln, lambda i: el, sv.ekind, None, sv.tag))]
            raise Unsupported('sequence repetition')
        if op == '+' and is_strlike(a) and is_strlike(b):
            if isinstance(a, str) and isinstance(b, str):
                return [(st, a + b)]
            return [(st, z3.Concat(to_str_term(a), to_str_term(b)))]
        if op == '*' and (is_strlike(a) and is_intlike(b) or is_strlike(b) and is_intlike(a)) and not isinstance(a, bool) and not isinstance(b, bool):
            sv, n = (a, b) if is_strlike(a) else (b, a)
            n0 = simp(n)
            if isinstance(sv, str) and is_conc_int(n0):
                return [(st, sv * n0)]
            # text repeated a symbolic number of times: some string (over-approximation); its length is known when the text is
            r = z3.String(uid('rep'))
            if isinstance(sv, str):
                st.assume(z3.Length(r) == z3.If(to_int(n0) < 0, z3.IntVal(0), to_int(n0)) * len(sv))
            return [(st, r)]
        if op == '%' and is_strlike(a):
            if isinstance(a, str) and is_concrete(b):
                try:
                    return [(st, a % (tuple(b.items) if isinstance(b, Tup) else b))]
                except Exception:
                    pass
            return [(st, z3.String(uid('fmt')))]
        if isinstance(a, Opt) or isinstance(b, Opt) or a is None or b is None:
            # None in arithmetic: TypeError
            conds = []
            if isinstance(a, Opt):
                conds.append(a.isnone)
                a = a.val
            if isinstance(b, Opt):
                conds.append(b.isnone)
                b = b.val
            if a is None or b is None:
                self.throw(st, 'TypeError', node)
                return []
            st = self.fork_exc(st, b_not(b_or(*conds)), 'TypeError', node)
            if st.dead:
                return []
        if isinstance(a, self.Opaque) or isinstance(b, self.Opaque):
            return [(st, self.Opaque())]
        if not ((is_intlike(a) or is_reallike(a)) and (is_intlike(b) or is_reallike(b))):
            raise Unsupported('binop %s on %r, %r (line %s)' % (op, a, b, getattr(node, 'lineno', '?')))
        if op in ('/', '//', '%'):
            nz = simp(num_cmp('!=', b, 0))
            st = self.fork_exc(st, nz, 'ZeroDivisionError', node)
            if st.dead:
                return []
        if op in ('<<', '>>') and not is_conc_int(b):
            st = self.fork_exc(st, num_cmp('>=', b, 0), 'ValueError', node)
            if st.dead:
                return []
        pend = Pending()
        try:
            r = num_binop(op, a, b, pend)
        except ZeroDivisionError:
            self.throw(st, 'ZeroDivisionError', node)
            return []
        for kind, goal in pend.obligations:
            if not self.pure:
                self.oblige(st, self.site(node, kind), goal, node)
        return [(st, simp(r) if is_z3(r) and False else r)]

    def ev_Attribute(self, node, st):
        out = []
        for s, v in self.ev(node.value, st):
            if not self.pure and isinstance(v, (Ref, Rec)):
                # a property whose body can raise: execute it path by path so that its exceptions are real outcomes
                cls = v.cls
                fields = s.heap[v.oid].fields if isinstance(v, Ref) else v.fields
                if node.attr not in fields:
                    ent = self.find_method(cls, node.attr)
                    if ent is not None and ent[2] is not None and any(isinstance(d, ast.Name) and d.id == 'property' for d in ent[2].decorator_list) \
                            and any(isinstance(n_, (ast.Raise, ast.Assert)) for n_ in ast.walk(ent[2])):
                        for s2, val in self.inline_call(UserFn(ent[0], ent[1], ent[2], v), [], {}, s, node, merge=False):
                            out.append((s2, val))
                        continue
            out.append((s, self.getattr(v, node.attr, s, node)))
        return out

    def getattr(self, v, attr, st, node=None):
        if isinstance(v, Ref):
            o = st.heap[v.oid]
            if attr in o.fields:
                return o.fields[attr]
            ent = self.find_method(o.cls, attr)
            if ent is not None:
                mod, q, fnode = ent
                if fnode is None:
                    return self.module_const(mod, q)
                if any(isinstance(d, ast.Name) and d.id == 'property' for d in fnode.decorator_list):
                    rs = self.inline_call(UserFn(mod, q, fnode, v), [], {}, st, node, merge=True)
                    if not rs:
                        raise Unsupported('property %s.%s has no normal path here' % (o.cls, attr))
                    return rs[0][1]
                if any(isinstance(d, ast.Name) and d.id == 'staticmethod' for d in fnode.decorator_list):
                    return UserFn(mod, q, fnode)
                return UserFn(mod, q, fnode, v)
            bm = self.builtins.get('cls:%s.%s' % (o.cls, attr))
            if bm is not None:
                return Fn(lambda eng, s, args, kw, n, _v=v, _m=bm: _m.call(eng, s, [_v] + list(args), kw, n), attr)
            if self.find_class(o.cls) is not None and attr.startswith('_') and not attr.startswith('__') and not self.pure:
                # an attribute the contract's object kind does not know (state added by an edit, e.g. a cache): nothing is
                # known about it, so it is an unconstrained "None or integer" value in the entry state
                self.assumptions_used.add('attribute %s.%s is not part of the contract: treated as an unconstrained int-or-None value' % (o.cls, attr))
                nv = Opt(z3.Bool(uid(attr + '.isnone')), z3.Int(uid(attr)))
                o.fields[attr] = nv
                for fr_ in self.frames:
                    if fr_.old is not None and v.oid in fr_.old[1] and attr not in fr_.old[1][v.oid].fields:
                        fr_.old[1][v.oid].fields[attr] = nv
                return nv
            raise Unsupported('attribute %s of %s (line %s)' % (attr, o.cls, getattr(node, 'lineno', '?')))
        if isinstance(v, Rec):
            bm = self.builtins.get('cls:%s.%s' % (v.cls, attr))
            if bm is not None and attr not in v.fields:
                return Fn(lambda eng, s, args, kw, n, _v=v, _m=bm: _m.call(eng, s, [_v] + list(args), kw, n), attr)
            if attr in v.fields:
                return v.fields[attr]
            ent = self.find_method(v.cls, attr)
            if ent is not None and ent[2] is not None:
                if any(isinstance(d, ast.Name) and d.id == 'property' for d in ent[2].decorator_list):
                    return self.inline_call(UserFn(ent[0], ent[1], ent[2], v), [], {}, st, node, merge=True)[0][1]
                return UserFn(ent[0], ent[1], ent[2], v)
            if ent is not None:
                return self.module_const(ent[0], ent[1])
            raise Unsupported('attribute %s of record %s' % (attr, v.cls))
        if hasattr(self, 'SuperVal') and isinstance(v, self.SuperVal):
            if v.base is None:
                if attr == '__init__':
                    return Fn(lambda eng, s, a, k, n: [(s, None)], 'object.__init__')
                raise Unsupported('super() of a class without known base')
            ent = self.find_method(v.base, attr)
            if ent is None or ent[2] is None:
                if attr == '__init__':
                    return Fn(lambda eng, s, a, k, n: [(s, None)], 'object.__init__')
                raise Unsupported('super().%s' % attr)
            return UserFn(ent[0], ent[1], ent[2], v.selfv)
        if isinstance(v, ModuleVal):
            dotted = v.dotted + '.' + attr
            rp = source.module_relpath(v.dotted)
            if rp is not None:
                m2 = source.load(rp)
                r = self.module_name(m2, attr)
                if r is not NotImplemented:
                    return r
            if source.module_relpath(dotted):
                return ModuleVal(dotted)
            if dotted in self.builtins:
                return self.builtins[dotted]
            if dotted in BUILTIN_EXC_BASES:
                return TypeVal(dotted)
            return ModuleVal(dotted)
        if isinstance(v, ClassVal):
            ent = self.find_method(v.name, attr)
            if ent is not None:
                if ent[2] is None:
                    return self.module_const(ent[0], ent[1])
                return UserFn(ent[0], ent[1], ent[2])
        if isinstance(v, Fn) and (v.name + '.' + attr) in self.builtins:
            return self.builtins[v.name + '.' + attr]
        if isinstance(v, Opt):
            # attribute of an optional: None has no attributes
            st2 = self.fork_exc(st, b_not(v.isnone), 'AttributeError', node)
            return self.getattr(v.val, attr, st2, node)
        if isinstance(v, StructVal) and attr == 'size':
            from .builtins import install as _i
            import struct as _st
            return _st.calcsize(v.fmt)
        meth = self.builtins.get('method:' + attr)
        if meth is not None:
            return Fn(lambda eng, s, args, kw, n, _v=v, _m=meth: _m.call(eng, s, [_v] + list(args), kw, n), attr)
        raise Unsupported('attribute %s of %r (line %s)' % (attr, v, getattr(node, 'lineno', '?')))

    def ev_Subscript(self, node, st):
        out = []
        if isinstance(node.slice, ast.Slice):
            sl = node.slice
            parts = [sl.lower or ast.Constant(None), sl.upper or ast.Constant(None), sl.step or ast.Constant(None)]
            for s, vs in self.ev_seq([node.value] + parts, st):
                v, lo, hi, stp = vs
                if is_strlike(v):
                    out.append((s, self.str_slice(v, lo, hi, stp)))
                elif isinstance(v, bytes) and all(x is None or is_conc_int(x) for x in (lo, hi, stp)):
                    out.append((s, v[lo:hi:stp]))
                elif isinstance(v, Tup) and all(x is None or is_conc_int(x) for x in (lo, hi, stp)):
                    out.append((s, Tup(v.items[lo:hi:stp])))
                else:
                    out.append((s, v_slice(v, lo, hi, stp)))
            return out
        for s, (v, i) in self.ev_seq([node.value, node.slice], st):
            out += self.index(v, i, s, node)
        return out

    def str_slice(self, v, lo, hi, stp):
        if stp is not None:
            raise Unsupported('string slice step')
        if isinstance(v, str) and all(x is None or is_conc_int(x) for x in (lo, hi)):
            return v[lo:hi]
        t = to_str_term(v)
        n = z3.Length(t)
        a = ops.clamp_slice_bound(lo, n, 0)
        b = ops.clamp_slice_bound(hi, n, n)
        a, b = to_int(a), to_int(b)
        return z3.SubString(t, a, z3.If(b - a < 0, z3.IntVal(0), b - a))

    def absmap_funcs(self, m):
        dom = z3.Function('dom_' + m.name, z3.IntSort(), z3.BoolSort())
        return dom

    def absmap_get(self, m, k):
        return fresh(m.val_kind, 'val_' + m.name, (k,), None)

    def index(self, v, i, st, node):
        """v[i] with Python semantics; IndexError / KeyError paths are forked."""
        if isinstance(v, AbsMap):
            dom = self.absmap_funcs(v)
            st = self.fork_exc(st, dom(to_int(i)), 'KeyError', node)
            if st.dead:
                return []
            val = self.absmap_get(v, i)
            if isinstance(val, Rec) and isinstance(v.val_kind, KRec) and not self.pure:
                val = self.rec_to_obj(val, st)
            return [(st, val)]
        if isinstance(v, DictVal):
            keys = list(v.d.keys())
            if isinstance(i, Tup) and is_concrete(i):
                i = tuple(i.items)
            if is_concrete(i) and not isinstance(i, Tup):
                k = float(i) if isinstance(i, fractions.Fraction) else i
                if k in v.d:
                    return [(st, v.d[k])]
                self.throw(st, 'KeyError', node)
                return []
            inn = self.contains(v, i)
            st = self.fork_exc(st, inn, 'KeyError', node)
            if st.dead:
                return []
            try:
                r = v.d[keys[-1]]
                for k in reversed(keys[:-1]):
                    r = v_ite(v_eq(i, self.lift_key(k)), v.d[k], r)
                return [(st, r)]
            except Unsupported:
                if self.pure:
                    raise
                # values that cannot be merged into one term (functions, objects): one path per key
                res = []
                rest = st
                for k in keys:
                    hit = simp(v_eq(i, self.lift_key(k)))
                    s_k = rest.copy()
                    s_k.assume(to_bool_term(hit))
                    if self.feasible(s_k):
                        res.append((s_k, v.d[k]))
                    rest = rest.copy()
                    rest.assume(to_bool_term(b_not(hit)))
                return res
        if isinstance(v, Opt):
            st = self.fork_exc(st, b_not(v.isnone), 'TypeError', node)
            if st.dead:
                return []
            v = v.val
        if v is None:
            if self.pure:
                return [(st, z3.Int(uid('undef')))]      # unspecified: guarded by the surrounding implication
            self.throw(st, 'TypeError', node)
            return []
        if is_strlike(v):
            if isinstance(v, str) and is_conc_int(i):
                if -len(v) <= i < len(v):
                    return [(st, v[i])]
                self.throw(st, 'IndexError', node)
                return []
            t = to_str_term(v)
            j, ok = norm_index(i, z3.Length(t))
            st = self.fork_exc(st, ok, 'IndexError', node)
            if st.dead:
                return []
            return [(st, z3.SubString(t, to_int(j), 1))]
        if isinstance(v, (View, bytes, Tup)):
            if isinstance(v, Tup) and is_conc_int(i):
                if -len(v.items) <= i < len(v.items):
                    return [(st, v.items[i])]
                self.throw(st, 'IndexError', node)
                return []
            vv = as_view(v)
            if self.pure and not is_conc_int(simp(i)):
                # spec mode: symbolic indices are taken as they are (no negative-index normalisation)
                j, ok = simp(i), True
            else:
                j, ok = norm_index(i, vv.length)
            st = self.fork_exc(st, ok, 'IndexError', node)
            if st.dead:
                return []
            j = simp(j)
            el = vv.get(j)
            if vv.facts and not self.pure:
                for f in vv.facts(j):
                    st.assume(f)
            elif isinstance(vv.ekind, KByte) and is_z3(el) and not self.pure:
                st.assume(z3.And(el >= 0, el <= 255))
            if isinstance(vv.ekind, KByte) and is_z3(el):
                ops.set_bits(el, 8, 0)
            return [(st, el)]
        if isinstance(v, Ref):
            ent = self.find_method(v.cls, '__getitem__')
            if ent and ent[2] is not None:
                return self.call_user(UserFn(ent[0], ent[1], ent[2], v), [i], {}, st, node)
        if isinstance(v, (Ref, Rec)) and v.cls == 'ndarray':
            flds = st.heap[v.oid].fields if isinstance(v, Ref) else v.fields
            if 'rows' in flds:
                return self.index(flds['rows'], i, st, node)
        raise Unsupported('subscript of %r (line %s)' % (v, getattr(node, 'lineno', '?')))

    def ev_Lambda(self, node, st):
        env = st.env
        fr = self.frame

        def call(eng, s, args, kw, n):
            saved = s.env
            s.env = dict(env)
            for a, v in zip(node.args.args, args):
                s.env[a.arg] = v
            eng.frames.append(fr)
            try:
                rs = eng.ev(node.body, s)
            finally:
                eng.frames.pop()
                s.env = saved
            return rs
        return [(st, Fn(call, '<lambda>'))]

    def ev_ListComp(self, node, st):
        if len(node.generators) != 1:
            raise Unsupported('nested comprehension')
        g = node.generators[0]
        out = []
        for s, it in self.ev(g.iter, st):
            it = self.to_iter_view(it, s, node)
            if g.ifs and not is_conc_int(it.length) and not self.pure:
                n_ = self.entailed_int(s, it.length, 0, 64)      # a length fixed by the path condition (e.g. len(x) == 17)
                if n_ is not None:
                    it = View(n_, it.get, it.ekind, it.facts, it.tag)
            if is_conc_int(it.length) and it.length <= 64:
                # concrete length: element by element (may fork)
                rs = [(s, [])]
                for k in range(it.length):
                    nxt = []
                    for s2, acc in rs:
                        s2.env = dict(s2.env)
                        self.bind_target(g.target, it.get(k), s2, node)
                        conds = [(s2, True)]
                        for cnd in g.ifs:
                            c2 = []
                            for s3, _ in conds:
                                for s4, cv in self.ev(cnd, s3):
                                    t = simp(self.truth(cv))
                                    if t is True or t is False:
                                        c2.append((s4, t))
                                    else:
                                        sa = s4.copy().assume(t)
                                        sb = s4.assume(b_not(t))
                                        if not sa.dead and self.feasible(sa):
                                            c2.append((sa, True))
                                        if not sb.dead and self.feasible(sb):
                                            c2.append((sb, False))
                            conds = c2
                        for s3, keep in conds:
                            if keep is False:
                                nxt.append((s3, acc))
                            else:
                                for s4, v in self.ev(node.elt, s3):
                                    nxt.append((s4, acc + [v]))
                    rs = nxt
                out += [(s2, conc_seq_view(acc, None, 'list')) for s2, acc in rs]
            else:
                if g.ifs:
                    raise Unsupported('filtered comprehension over a symbolic sequence')
                s0 = s
                if not self.pure:
                    # an element expression that can raise: some element raises -> the comprehension raises
                    qi = z3.Int(uid('ci'))
                    probe = s.copy()
                    probe.pc = []
                    self.bind_target(g.target, it.get(qi), probe, node)
                    self.sinks.append([])
                    try:
                        self.ev(node.elt, probe)
                    finally:
                        excs = self.sinks.pop()
                    by_cls = {}
                    for se, e, ln in excs:
                        by_cls.setdefault(e.cls, []).append(b_and(*se.pc) if se.pc else True)
                    allc = []
                    for cls_, conds in by_cls.items():
                        cnd = simp(b_or(*conds))
                        if cnd is False:
                            continue
                        allc.append(cnd)
                        kk = z3.Int(uid('ck'))
                        ck = z3.substitute(to_bool_term(cnd), (qi, kk)) if is_z3(cnd) else z3.BoolVal(True)
                        sx = s.copy().assume(z3.And(kk >= 0, kk < to_int(it.length), ck))
                        if not sx.dead:
                            self.throw(sx, cls_, node)
                    if allc:
                        tot = simp(b_or(*allc))
                        if tot is True:
                            s.assume(num_cmp('==', it.length, 0))
                        else:
                            s.assume(z3.ForAll([qi], z3.Implies(z3.And(qi >= 0, qi < to_int(it.length)), z3.Not(to_bool_term(tot)))))

                def get(i, _it=it, _s=s0):
                    return self.pure_apply_target(g.target, _it.get(i), node.elt, _s, node)
                ek = None
                try:
                    ek = kind_of(get(z3.Int(uid('ck'))))
                except Unsupported:
                    pass
                out.append((s, View(it.length, get, ek, None, 'list')))
        return out

    ev_GeneratorExp = ev_ListComp

    def pure_apply_target(self, target, val, body, st, node):
        s = st.copy()
        s.pc = []
        self.bind_target(target, val, s, node)
        return self.merge_eval(body, s)

    def merge_eval(self, body, s):
        """Evaluate an expression that may fork on a scratch state and merge the results with ite."""
        self.sinks.append([])
        try:
            rs = self.ev(body, s)
        finally:
            sink = self.sinks.pop()
        if sink:
            # exceptional paths inside a pure element expression: leave the value unspecified there
            pass
        if not rs:
            raise Unsupported('element expression has no normal path')
        r = rs[-1][1]
        for s2, v in reversed(rs[:-1]):
            cond = b_and(*s2.pc) if s2.pc else True
            r = v_ite(simp(cond), v, r)
        return r

    def to_iter_view(self, v, st, node):
        if isinstance(v, View):
            return v
        if isinstance(v, self.Opaque):
            return View(z3.Int(uid('opaque_len')), lambda i: self.Opaque(), None, None, 'list')
        if isinstance(v, (bytes, Tup, str)):
            return as_view(v)
        if isinstance(v, DictVal):
            return conc_seq_view([self.lift_key(k) for k in v.d], None, 'list')
        if isinstance(v, SetVal):
            return conc_seq_view(v.items, None, 'list')
        if isinstance(v, (Ref, Rec)) and v.cls == 'range':
            flds = st.heap[v.oid].fields if isinstance(v, Ref) else v.fields
            return ops.range_view(flds['start'], flds['stop'], flds['step'])
        if isinstance(v, Ref):
            ent = self.find_method(v.cls, '__iter__')
            raise Unsupported('iteration over object %s' % v.cls)
        raise Unsupported('not iterable: %r (line %s)' % (v, getattr(node, 'lineno', '?')))

    def ev_Starred(self, node, st):
        raise Unsupported('starred expression')

    def ev_Yield(self, node, st):
        out = []
        rs = self.ev(node.value, st) if node.value is not None else [(st, None)]
        for s, v in rs:
            s.out = v_append(s.out, self.snapshot(v, s))
            s.out.ekind = self.frame.contract.yields if self.frame.contract is not None and not getattr(self.frame, 'inlined', False) else s.out.ekind
            out.append((s, None))
        return out

    def snapshot(self, v, st, depth=0):
        """Value of a heap object at this moment (objects put into a sequence are stored by value)."""
        if isinstance(v, Ref) and depth < 6:
            o = st.heap[v.oid]
            return Rec(o.cls, {f: self.snapshot(x, st, depth + 1) for f, x in o.fields.items()})
        if isinstance(v, Tup):
            return Tup([self.snapshot(x, st, depth + 1) for x in v.items])
        if isinstance(v, Rec) and depth < 6 and any(isinstance(x, (Ref, Rec, Tup)) for x in v.fields.values()):
            return Rec(v.cls, {f: self.snapshot(x, st, depth + 1) for f, x in v.fields.items()})
        return v

    def ev_YieldFrom(self, node, st):
        out = []
        for s, v in self.ev(node.value, st):
            s.out = v_concat(s.out, self.to_iter_view(v, s, node))
            out.append((s, None))
        return out

    # ------------------------------------------------------------ calls
    def ev_Call(self, node, st):
        ftxt = ast.unparse(node.func)
        if ftxt.startswith(NOOP_CALL_PREFIXES) and not ftxt.startswith('print_'):
            self.assumptions_used.add('logging/print calls are no-ops; their argument expressions are not evaluated')
            return [(st, None)]
        if isinstance(node.func, ast.Name) and node.func.id == 'implies' and self.pure and len(node.args) == 2 and not node.keywords:
            # lazy in its consequent: `implies(len(xs) >= 1, xs[0]...)` must not evaluate xs[0] on a concretely empty xs
            a = simp(self.truth(self.ev(node.args[0], st)[0][1]))
            if a is False:
                return [(st, True)]
            b = self.truth(self.ev(node.args[1], st)[0][1])
            return [(st, simp(b) if a is True else simp(b_implies(a, b)))]
        if isinstance(node.func, ast.Name) and node.func.id == 'old' and self.pure:
            oe, oh = self._old
            tmp = State()
            tmp.env = dict(oe)
            tmp.heap = oh
            tmp.pc = st.pc
            return [(st, self.ev(node.args[0], tmp)[0][1])]
        if isinstance(node.func, ast.Attribute) and node.func.attr == 'pop' and not node.args and not self.pure:
            r = self.ev_pop(node, st)
            if r is not None:
                return r
        if isinstance(node.func, ast.Attribute) and node.func.attr == 'add' and len(node.args) == 1 and not self.pure:
            r = self.ev_set_add(node, st)
            if r is not None:
                return r
        if isinstance(node.func, ast.Attribute) and ('mut:' + node.func.attr) in self.builtins and not self.pure:
            r = self.ev_mutating(node, st)
            if r is not None:
                return r
        out = []
        # method call on a view element that is a record: materialise, call, write back
        for s, fv in self.ev_callee(node.func, st):
            argnodes = list(node.args)
            kwnodes = [(k.arg, k.value) for k in node.keywords]
            if any(k is None for k, _ in kwnodes):
                raise Unsupported('**kwargs call')
            flat = []
            for s2, vals in self.ev_seq([a.value if isinstance(a, ast.Starred) else a for a in argnodes] + [v for _, v in kwnodes], s):
                args = []
                for a, v in zip(argnodes, vals[:len(argnodes)]):
                    if isinstance(a, ast.Starred):
                        vv = as_view(v)
                        n_ = vv.length if is_conc_int(vv.length) else self.entailed_int(s2, vv.length)
                        if n_ is None:
                            raise Unsupported('*args of symbolic length')
                        args += [vv.get(i) for i in range(n_)]
                    else:
                        args.append(v)
                kw = {k: v for (k, _), v in zip(kwnodes, vals[len(argnodes):])}
                for s3, rv in self.call(fv, args, kw, s2, node):
                    if s3.wb:
                        for s4 in self.flush_writebacks(s3, node):
                            out.append((s4, rv))
                    else:
                        out.append((s3, rv))
        return out

    def ev_pop(self, node, st):
        """lst.pop(): IndexError on an empty list, else removes and returns the last element."""
        out = []
        for s, recv in self.ev(node.func.value, st):
            if not isinstance(recv, View):
                return None
            s = self.fork_exc(s, num_cmp('>', recv.length, 0), 'IndexError', node)
            if s.dead:
                continue
            n1 = simp(num_binop('-', recv.length, 1, Pending()))
            last = recv.get(n1)
            nv = View(n1, recv.get, recv.ekind, recv.facts, recv.tag)
            for s3 in self.assign(node.func.value, nv, s, node):
                out.append((s3, last))
        return out

    def ev_set_add(self, node, st):
        """s.add(e) on an abstract set (known through its membership predicate): the set afterwards holds e as well and is
        not empty.  The receiver expression is re-bound (the set object is shared with the caller: assumption recorded)."""
        out = []
        for s, recv in self.ev(node.func.value, st):
            if not isinstance(recv, AbsSet):
                return None
            for s2, e in self.ev(node.args[0], s):
                old_mem = recv.mem
                nv = AbsSet(lambda t, _m=old_mem, _e=e: b_or(_m(t), v_eq(t, _e)), False)
                try:
                    nv._root = getattr(recv, '_root', recv)      # the set object this value is a later state of
                except AttributeError:
                    pass
                self.assumptions_used.add('set.add on an abstract set: membership afterwards = membership before or equality with the added element')
                for s3 in self.assign(node.func.value, nv, s2, node):
                    out.append((s3, None))
        return out

    def ev_mutating(self, node, st):
        """x.append(v) and friends on list/bytearray values: rebuild the view and assign it back to x."""
        out = []
        handled = False
        for s, recv in self.ev(node.func.value, st):
            if not isinstance(recv, (View, bytes)):
                if handled:
                    raise Unsupported('mixed receivers for %s' % node.func.attr)
                return None
            handled = True
            for s2, args in self.ev_seq(list(node.args), s):
                if node.func.attr in ('append', 'insert') and any(isinstance(a_, (Ref, Rec)) for a_ in args):
                    # objects put into a sequence are stored by value (see snapshot)
                    args = [self.snapshot(a_, s2) for a_ in args]
                if node.func.attr == 'extend' and not isinstance(args[0], (View, bytes, Tup)):
                    args = [self.to_iter_view(args[0], s2, node)]
                if node.func.attr == 'append' and isinstance(args[0], Ref):
                    o = s2.heap[args[0].oid]
                    args = [Rec(o.cls, o.fields)]
                    self.assumptions_used.add('objects appended to a list are stored by value (no aliasing of list elements)')
                nv, rv = self.builtins['mut:' + node.func.attr](recv, args)
                for s3 in self.assign(node.func.value, nv, s2, node):
                    out.append((s3, rv))
        return out

    def entailed_int(self, st, term, lo=0, hi=8):
        """The value k in lo..hi that the path condition forces `term` to have, or None."""
        for k in range(lo, hi + 1):
            sol = z3.Solver()
            sol.set('timeout', 2000)
            for a in st.pc:
                sol.add(a)
            sol.add(to_int(term) != k)
            if sol.check() == z3.unsat:
                return k
        return None

    def ev_callee(self, fnode, st):
        """Evaluate the callee expression.  Handles `X[i].method` on views of records (write-back)."""
        if isinstance(fnode, ast.Attribute) and not self.pure:
            rs = []
            for s, recv in self.ev(fnode.value, st):
                if isinstance(recv, Rec):
                    ref = s.new_obj(recv.cls, recv.fields)
                    wb = None
                    if isinstance(fnode.value, ast.Subscript) and not isinstance(fnode.value.slice, ast.Slice):
                        wb = (fnode.value, ref)
                    s.wb.append((wb, ref, recv))
                    rs.append((s, self.getattr(ref, fnode.attr, s, fnode)))
                else:
                    rs.append((s, self.getattr(recv, fnode.attr, s, fnode)))
            return rs
        return self.ev(fnode, st)

    def flush_writebacks(self, st, node):
        """After a statement: store materialised view elements back into their view."""
        if not st.wb:
            return [st]
        states = [st]
        wbs = st.wb
        st.wb = []
        for wb, ref, orig in wbs:
            nxt = []
            for s in states:
                o = s.heap.pop(ref.oid, None)
                if o is None:
                    nxt.append(s)
                    continue
                changed = any(o.fields.get(f) is not orig.fields.get(f) for f in o.fields)
                if not changed:
                    nxt.append(s)
                    continue
                if wb is None:
                    raise Unsupported('mutation of a record reached through a non-subscript expression (line %s)'
                                      % getattr(node, 'lineno', '?'))
                sub, _ = wb
                newrec = self.snapshot(Rec(o.cls, dict(o.fields)), s)     # nested objects given identity for the call: by value again
                self.sinks.append([])
                try:
                    for s2, (cont, idx) in self.ev_seq([sub.value, sub.slice], s):
                        vv = as_view(cont)
                        j, ok = norm_index(idx, vv.length)
                        nv = v_store(vv, simp(j), newrec)
                        nv.ekind = vv.ekind
                        nxt += self.assign(sub.value, nv, s2, node)
                finally:
                    self.sinks.pop()
            states = nxt
        return states

    def call(self, fv, args, kw, st, node):
        if isinstance(fv, Fn):
            r = fv.call(self, st, args, kw, node)
            return r
        if isinstance(fv, UserFn):
            return self.call_user(fv, args, kw, st, node)
        if isinstance(fv, ClassVal):
            return self.construct(fv, args, kw, st, node)
        if isinstance(fv, TypeVal):
            # exception construction
            return [(st, ExcVal(fv.name))]
        if isinstance(fv, StructVal):
            raise Unsupported('calling a Struct')
        if isinstance(fv, ModuleVal):
            if fv.dotted in self.builtins:
                return self.builtins[fv.dotted].call(self, st, args, kw, node)
            raise Unsupported('call of unmodelled external %s (line %s)' % (fv.dotted, getattr(node, 'lineno', '?')))
        if isinstance(fv, Opt):
            st = self.fork_exc(st, b_not(fv.isnone), 'TypeError', node)
            return self.call(fv.val, args, kw, st, node) if not st.dead else []
        raise Unsupported('call of %r (line %s)' % (fv, getattr(node, 'lineno', '?')))

    def construct(self, cv, args, kw, st, node):
        if self.is_subclass(cv.name, 'BaseException'):
            return [(st, ExcVal(cv.name))]
        entn = self.find_method(cv.name, '__new__')
        if entn is not None and entn[2] is not None:
            c_new = self.reg.contracts.get((entn[0].relpath, entn[1]))
            if c_new is not None and not c_new.inline:
                # a class whose instances are made by __new__ (tuple subclasses): the call is the call of __new__ under its contract
                return list(self.call_user(UserFn(entn[0], entn[1], entn[2], cv), args, kw, st, node))
        ent = self.find_method(cv.name, '__init__')
        ref = st.new_obj(cv.name, {})
        if ent is None or ent[2] is None:
            # NamedTuple-like classes: fields from annotations
            cent = self.find_class(cv.name)
            if cent:
                names = [n.target.id for n in cent[1].body if isinstance(n, ast.AnnAssign) and isinstance(n.target, ast.Name)]
                for b in cent[1].bases:
                    # class X(collections.namedtuple('X', 'a b c')): fields from the literal
                    if isinstance(b, ast.Call) and ast.unparse(b.func).endswith('namedtuple') and len(b.args) == 2 and isinstance(b.args[1], ast.Constant) \
                            and isinstance(b.args[1].value, str):
                        names = b.args[1].value.replace(',', ' ').split()
                if names and len(args) + len(kw) <= len(names):
                    o = st.heap[ref.oid]
                    for n, a in zip(names, args):
                        o.fields[n] = a
                    for k, v in kw.items():
                        o.fields[k] = v
                    if len(o.fields) == len(names):
                        del st.heap[ref.oid]
                        return [(st, Rec(cv.name, o.fields))]
            if not args and not kw:
                return [(st, ref)]
            raise Unsupported('constructor of %s' % cv.name)
        out = []
        for s, _ in self.call_user(UserFn(ent[0], ent[1], ent[2], ref), args, kw, st, node):
            out.append((s, ref))
        return out

    def bind_params(self, fn, args, kw, st, node):
        """Bind call arguments to parameter names; returns env dict or raises Unsupported."""
        a = fn.node.args
        names = [x.arg for x in a.posonlyargs + a.args]
        env = {}
        args = list(args)
        if fn.selfv is not None:
            args = [fn.selfv] + args
        if len(args) > len(names):
            if a.vararg is None:
                raise Unsupported('too many arguments calling %s' % fn.qual)
            env[a.vararg.arg] = Tup(args[len(names):])
            args = args[:len(names)]
        elif a.vararg is not None:
            env[a.vararg.arg] = Tup([])
        for n, v in zip(names, args):
            env[n] = v
        extra_kw = {}
        for k, v in kw.items():
            if k in env:
                raise Unsupported('duplicate argument %s' % k)
            if k not in names and k not in [x.arg for x in a.kwonlyargs] and a.kwarg is not None:
                extra_kw[k] = v
                continue
            env[k] = v
        if a.kwarg is not None:
            env[a.kwarg.arg] = DictVal(extra_kw)
        defaults = a.defaults
        for n, d in zip(names[len(names) - len(defaults):], defaults):
            if n not in env:
                env[n] = self.eval_default(fn, d, st)
        for ka, d in zip(a.kwonlyargs, a.kw_defaults):
            if ka.arg not in env:
                if d is None:
                    raise Unsupported('missing kw-only argument %s' % ka.arg)
                env[ka.arg] = self.eval_default(fn, d, st)
        for n in names:
            if n not in env:
                raise Unsupported('missing argument %s calling %s' % (n, fn.qual))
        return env

    def eval_default(self, fn, d, st):
        fr = Frame(fn.mod, fn.qual, None)
        self.frames.append(fr)
        self.pure += 1
        try:
            return self.ev(d, State())[0][1]
        finally:
            self.pure -= 1
            self.frames.pop()

    def call_user(self, fn, args, kw, st, node):
        if fn.mod is None:
            # spec function: inline, merged; memoised so that the same predicate over the same arguments is the
            # same term (lets a callee precondition be recognised as the caller's own hypothesis)
            key = None
            if not kw:
                try:
                    key = (fn.qual, tuple(self._argkey(a, st) for a in args))
                except TypeError:
                    key = None
            memo = self.__dict__.setdefault('_spec_memo', {})
            if key is not None and key in memo:
                return [(st, memo[key][0])]
            rs = self.inline_call(fn, args, kw, st, node, merge=True)
            if key is not None and len(rs) == 1:
                memo[key] = (rs[0][1], args)       # keep args alive: ids are part of the key
            return rs
        key = (fn.mod.relpath, fn.qual)
        c = self.reg.contracts.get(key)
        for alt in self.reg.alternatives.get(key, []):
            if alt.applies(self, fn, args, st):
                c = alt
                break
        cur = self.frame
        if c is not None and not c.inline and not c.inline_at_calls:
            return self.call_contract(c, fn, args, kw, st, node)
        if c is not None and (c.inline or c.inline_at_calls) or key in getattr(self.reg, 'inline_keys', ()):
            return self.inline_call(fn, args, kw, st, node, merge=bool(self.pure))
        if fn.closure is not None:
            return self.inline_call(fn, args, kw, st, node, merge=bool(self.pure))
        # a repository function without a contract: executed from its real body when it is loop-free (small helpers,
        # including helpers extracted by a refactoring); anything larger must be given a contract
        if getattr(self, 'effect', None) is not None and not self.pure:
            raise Unsupported('call of %s:%s which has no contract (exception-effect mode: untracked)' % (fn.mod.relpath, fn.qual))
        if not any(isinstance(n, (ast.While, ast.For, ast.AsyncFor)) for n in ast.walk(fn.node)) \
                and sum(1 for n in ast.walk(fn.node) if isinstance(n, ast.stmt)) <= 40:
            self.auto_inlined = getattr(self, 'auto_inlined', set())
            self.auto_inlined.add('%s:%s' % (fn.mod.relpath, fn.qual))
            return self.inline_call(fn, args, kw, st, node, merge=bool(self.pure))
        raise Unsupported('call of %s:%s which has no contract and is not marked inline (line %s)'
                          % (fn.mod.relpath, fn.qual, getattr(node, 'lineno', '?')))

    def _argkey(self, a, st):
        if is_z3(a):
            return ('z', a.get_id())
        if isinstance(a, (int, str, bool, fractions.Fraction)) or a is None:
            return ('c', a)
        if isinstance(a, Ref):
            o = st.heap[a.oid]
            return ('r', a.oid, tuple(sorted((f, self._argkey(v, st)) for f, v in o.fields.items())))
        if isinstance(a, (View, Rec, Opt, Tup, Fn)):
            return ('o', id(a))
        raise TypeError

    def inline_call(self, fn, args, kw, st, node, merge=False):
        """Execute the callee's real body in place."""
        self.depth += 1
        if self.depth > 12:
            raise Unsupported('inline depth')
        try:
            env = self.bind_params(fn, args, kw, st, node)
            if fn.closure:
                e2 = dict(fn.closure)
                e2.update(env)
                env = e2
            # ghost state of the contract being verified stays visible inside inlined callees (their loop invariants may
            # mention the ghost layout); ghosts are never assigned by code, so nothing has to be copied back
            top = self.frames[0].contract if self.frames and self.frames[0].contract is not None else None
            if top is not None and fn.mod is not None:
                for g_ in list(getattr(top, 'ghost', {})) + list(getattr(top, 'ghost_init', {})):
                    if g_ in st.env and g_ not in env:
                        env[g_] = st.env[g_]
            saved_env, saved_out = st.env, st.out
            mod = fn.mod if fn.mod is not None else self.frame.mod
            fr = Frame(mod, fn.qual, self.frame.contract)
            fr.sites = self.frame.sites if fn.mod is None else {}
            fr.inlined = True
            fr.old = self.frame.old
            gen = source.has_yield(fn.node)
            if merge:
                s = st.copy()
                base = len(s.pc)
                s.env = env
                if gen:
                    s.out = conc_seq_view([], None, 'gen')
                self.frames.append(fr)
                self.sinks.append([])
                try:
                    outs = self.exec_block(fn.node.body, s)
                finally:
                    self.sinks.pop()
                    self.frames.pop()
                vals = []
                for s2, oc in outs:
                    if oc[0] == 'raise':
                        continue
                    v = oc[1] if oc[0] == 'return' else None
                    if gen:
                        v = s2.out
                    vals.append((b_and(*s2.pc[base:]) if len(s2.pc) > base else True, v))
                if not vals:
                    if not self.feasible(st):
                        st.dead = True       # the calling path itself is infeasible
                        return []
                    raise Unsupported('pure call of %s has no normal path' % fn.qual)
                r = vals[-1][1]
                for cnd, v in reversed(vals[:-1]):
                    r = v_ite(simp(cnd), v, r)
                return [(st, r)]
            st.env = env
            if gen:
                st.out = conc_seq_view([], None, 'gen')
            self.frames.append(fr)
            try:
                outs = self.exec_block(fn.node.body, st)
            finally:
                self.frames.pop()
            res = []
            for s2, oc in outs:
                if oc[0] == 'raise':
                    s2.env = dict(saved_env)
                    s2.out = saved_out
                    self.sinks[-1].append((s2, oc[1], oc[2] if len(oc) > 2 else 0))
                    continue
                v = oc[1] if oc[0] == 'return' else None
                if gen:
                    v = s2.out
                # an abstract set handed to the callee and changed there in place (s.add(e) re-binds the callee's name): the
                # caller's variable sees the change, as it does for the one shared set object in CPython
                back = {}
                pnames = [x.arg for x in fn.node.args.posonlyargs + fn.node.args.args]
                if fn.selfv is not None:
                    pnames = pnames[1:]
                for i_, a_ in enumerate(args):
                    if isinstance(a_, AbsSet) and i_ < len(pnames) and i_ < len(getattr(node, 'args', [])) and isinstance(node.args[i_], ast.Name):
                        fin = s2.env.get(pnames[i_])
                        # (only a later state of the SAME set object: a parameter re-bound to another set is the callee's own business)
                        if isinstance(fin, AbsSet) and fin is not a_ and getattr(fin, '_root', None) is getattr(a_, '_root', a_):
                            back[node.args[i_].id] = fin
                # every path of the callee continues with its OWN copy of the caller's locals
                s2.env = dict(saved_env)
                s2.env.update(back)
                s2.out = saved_out
                res.append((s2, v))
            return res
        finally:
            self.depth -= 1

    def call_contract(self, c, fn, args, kw, st, node):
        """Modular call: assert pre, havoc frame, assume post."""
        env = self.bind_params(fn, args, kw, st, node)
        if c.trusted:
            self.trusted_used.add('%s:%s (assumed contract)%s' % (c.file.split('/')[-1], c.func, ' — ' + c.note if c.note else ''))
        for g in c.ghost:
            if g in st.env:
                env[g] = st.env[g]
            else:
                raise ContractError('ghost %s of callee %s not bound in caller' % (g, c.func))
        pre = State()
        pre.env = dict(env)
        pre.heap = st.heap
        pre.pc = st.pc
        oldsnap = (dict(env), {k: HObj(o.cls, dict(o.fields)) for k, o in st.heap.items()})
        if not self.pure:
            for i, r in enumerate(c.requires):
                g = self.spec_bool(r, pre, None, oldsnap)
                self.oblige(st, self.site(node, 'pre') + '.%s.%d' % (c.name, i), g, node, note=r)
        results = []
        # exceptional outcomes
        exc_conds = []
        for ecls, cond in list(c.raises.items()) + list(c.may_raise.items()):
            cv = simp(self.spec_bool(cond, pre, None, oldsnap))
            if cv is False:
                continue
            if ecls in c.raises:
                exc_conds.append(cv)
            if not self.pure:
                se = st.copy().assume(cv)
                if not se.dead:
                    if ecls in c.ensures_exc:
                        self.havoc_modifies(c, env, se)
                        for e in c.ensures_exc[ecls]:
                            post = State()
                            post.env = dict(env)
                            post.heap = se.heap
                            post.pc = se.pc
                            se.assume(self.spec_bool(e, post, None, oldsnap))
                    self.throw(se, ecls, node)
        for cv in exc_conds:
            st.assume(b_not(cv))
        if st.dead:
            return []
        # havoc
        self.havoc_modifies(c, env, st)
        facts = []
        extra = {}
        if c.yields is not None:
            res = fresh(KView(c.yields), uid(c.func.split('.')[-1] + '_out'), (), facts)
            extra['out'] = res
            extra['result'] = res
        elif c.returns is not None:
            res = fresh(c.returns, uid(c.func.split('.')[-1] + '_res'), (), facts)
            if isinstance(c.returns, KByte):
                ops.set_bits(res, 8, 0)
            res = self.objectify(res, st)
            extra['result'] = res
        else:
            res = None
            extra['result'] = None
        for f in facts:
            st.assume(f)
        post = State()
        post.env = dict(env)
        post.env.update(extra)
        post.heap = st.heap
        post.pc = st.pc
        if c.ghost_post:
            newg = {g: self.materialise(self.spec(e, post, None, oldsnap), st, g) for g, e in c.ghost_post.items()}
            post.env.update(newg)
        for e in c.ensures:
            st.assume(self.spec_bool(e, post, None, oldsnap))
            if st.dead:
                return []
        if c.ghost_post:
            for g, v in newg.items():
                st.env[g] = v
        return [(st, res)]

    def kind_in_state(self, v, st):
        if isinstance(v, Ref):
            o = st.heap[v.oid]
            return KRec(o.cls, **{f: self.kind_in_state(x, st) for f, x in o.fields.items()})
        if isinstance(v, Tup):
            return KTup(*[self.kind_in_state(x, st) for x in v.items])
        return kind_of(v)

    def objectify(self, v, st):
        """Records inside a returned tuple become heap objects (a callee returning fresh objects)."""
        if isinstance(v, Rec):
            ent = self.find_class(v.cls)
            if ent is not None and any('NamedTuple' in ast.unparse(b) for b in ent[1].bases):
                return v        # immutable value class
            return self.rec_to_obj(v, st)
        if isinstance(v, Tup):
            return Tup([self.objectify(x, st) for x in v.items])
        return v

    def havoc_modifies(self, c, env, st):
        for path in c.modifies:
            if isinstance(path, tuple):
                self.havoc_path(path[0], env, st, {path[0]: path[1]})
            else:
                self.havoc_path(path, env, st)

    def havoc_path(self, path, env, st, kinds=None):
        """path like 'self.field' or 'self.a.b': havoc the last field of the object denoted by the prefix."""
        parts = path.split('.')
        tmp = State()
        tmp.env = env
        tmp.heap = st.heap
        tmp.pc = st.pc
        if len(parts) == 1:
            return
        obj = self.spec('.'.join(parts[:-1]), tmp)
        if isinstance(obj, Rec) and len(parts) > 2:
            # a nested record held by value (an element of a sequence made into an object for this call): give it identity
            par = self.spec('.'.join(parts[:-2]), tmp)
            if isinstance(par, Ref) and st.heap[par.oid].fields.get(parts[-2]) is obj:
                obj = self.rec_to_obj(obj, st)
                st.heap[par.oid].fields[parts[-2]] = obj
        if not isinstance(obj, Ref):
            raise ContractError('modifies path %s does not denote an object field' % path)
        o = st.heap[obj.oid]
        cur = o.fields.get(parts[-1])
        k = (kinds or {}).get(path)
        if k is None:
            if parts[-1] not in o.fields:
                raise ContractError('modifies %s: the field does not exist yet and the contract gives no kind for it' % path)
            k = self.kind_in_state(cur, st)
        facts = []
        nv = fresh(k, uid(parts[-1]), (), facts)
        if isinstance(k, KRec):
            nv = self.rec_to_obj(nv, st)
        o.fields[parts[-1]] = nv
        for f in facts:
            st.assume(f)

    # ------------------------------------------------------------ assignment
    def bind_target(self, target, val, st, node):
        rs = self.assign(target, val, st, node)
        if len(rs) != 1:
            raise Unsupported('binding forked')
        return rs[0]

    def assign(self, target, val, st, node):
        """Assign val to target; returns list of states."""
        if isinstance(target, ast.Name):
            st.env = dict(st.env) if False else st.env
            st.env[target.id] = val
            return [st]
        if isinstance(target, (ast.Tuple, ast.List)):
            if isinstance(val, Tup):
                items = val.items
            elif isinstance(val, (View, bytes)):
                vv = as_view(val)
                if not is_conc_int(vv.length):
                    st = self.fork_exc(st, num_cmp('==', vv.length, len(target.elts)), 'ValueError', node)
                    if st.dead:
                        return []
                    items = [vv.get(i) for i in range(len(target.elts))]
                else:
                    items = [vv.get(i) for i in range(vv.length)]
            else:
                raise Unsupported('unpacking %r' % (val,))
            if len(items) != len(target.elts):
                self.throw(st, 'ValueError', node)
                return []
            states = [st]
            for t, v in zip(target.elts, items):
                nxt = []
                for s in states:
                    nxt += self.assign(t, v, s, node)
                states = nxt
            return states
        if isinstance(target, ast.Attribute):
            out = []
            for s, obj in self.ev(target.value, st):
                if not isinstance(obj, Ref):
                    raise Unsupported('attribute assignment on %r (line %s)' % (obj, getattr(node, 'lineno', '?')))
                s.heap[obj.oid].fields[target.attr] = val
                out.append(s)
            return out
        if isinstance(target, ast.Subscript):
            out = []
            if isinstance(target.slice, ast.Slice):
                raise Unsupported('slice assignment')
            for s, (cont, idx) in self.ev_seq([target.value, target.slice], st):
                if isinstance(cont, DictVal):
                    if not is_concrete(idx):
                        raise Unsupported('dict store with symbolic key')
                    d = dict(cont.d)
                    d[idx] = val
                    out += self.assign(target.value, DictVal(d), s, node)
                    continue
                if isinstance(cont, Ref):
                    ent = self.find_method(cont.cls, '__setitem__')
                    if ent and ent[2] is not None:
                        out += [s2 for s2, _ in self.call_user(UserFn(ent[0], ent[1], ent[2], cont), [idx, val], {}, s, node)]
                        continue
                vv = as_view(cont)
                j, ok = norm_index(idx, vv.length)
                s = self.fork_exc(s, ok, 'IndexError', node)
                if s.dead:
                    continue
                if isinstance(val, Ref):
                    self.assumptions_used.add('an object stored into a sequence is stored by value (later mutation through another alias is not tracked)')
                nv = v_store(vv, simp(j), self.snapshot(val, s))
                out += self.assign(target.value, nv, s, node)
            return out
        raise Unsupported('assignment target %s' % target.__class__.__name__)

    # ------------------------------------------------------------ statements
    def exec_block(self, stmts, st):
        """Execute statements; returns list of (state, outcome) with outcome a tuple:
        ('normal',) ('return', v) ('break',) ('continue',) ('raise', ExcVal, line)."""
        pending = [st]
        done = []
        for stmt in stmts:
            nxt = []
            for s in pending:
                for s2, oc in self.exec_stmt(stmt, s):
                    if s2.dead:
                        continue
                    if oc[0] == 'normal':
                        nxt.append(s2)
                    else:
                        done.append((s2, oc))
            pending = nxt
            if not pending:
                break
        return done + [(s, ('normal',)) for s in pending]

    def exec_stmt(self, stmt, st):
        sink = []
        self.sinks.append(sink)
        eff = getattr(self, 'effect', None)
        backup = st.copy() if eff is not None and not self.pure and isinstance(stmt, (ast.For, ast.While, ast.With, ast.Try)) else None
        try:
            m = getattr(self, 'st_' + stmt.__class__.__name__, None)
            if m is None:
                raise Unsupported('statement %s at line %s' % (stmt.__class__.__name__, stmt.lineno))
            try:
                outs = m(stmt, st)
            except (Unsupported, ContractError) as e:
                # exception-effect mode: a compound statement the model cannot follow and that contains no return /
                # break / continue / yield is abstracted: it may raise Exception, and afterwards every name it assigns
                # and every mutable local it mentions is untracked
                if backup is None or any(isinstance(n, (ast.Return, ast.Break, ast.Continue, ast.Yield, ast.YieldFrom)) for n in ast.walk(stmt)) \
                        or (isinstance(e, ContractError) and 'no invariant' not in str(e)):
                    raise
                del sink[:]
                s0 = backup
                self.throw(s0.copy(), 'Exception', stmt)
                for n in ast.walk(stmt):
                    if isinstance(n, ast.Name) and (isinstance(n.ctx, ast.Store) or isinstance(s0.env.get(n.id), (View, Ref, DictVal, SetVal))):
                        s0.env[n.id] = self.Opaque()
                self.assumptions_used.add('%s: statement at line %d abstracted (may raise Exception, assigned names untracked)' % (eff.func, stmt.lineno))
                outs = [(s0, ('normal',))]
        finally:
            self.sinks.pop()
        res = list(outs)
        for s, e, line in sink:
            if not s.dead:
                s.wb = []
                res.append((s, ('raise', e, line)))
        return res

    def st_Expr(self, stmt, st):
        if isinstance(stmt.value, ast.Constant):
            return [(st, ('normal',))]
        return [(s, ('normal',)) for s, _ in self.ev(stmt.value, st)]

    def st_Pass(self, stmt, st):
        return [(st, ('normal',))]

    def st_Assign(self, stmt, st):
        out = []
        for s, v in self.ev(stmt.value, st):
            states = [s]
            for t in stmt.targets:
                nxt = []
                for s2 in states:
                    nxt += self.assign(t, v, s2, stmt)
                states = nxt
            out += [(s2, ('normal',)) for s2 in states]
        return out

    def st_AnnAssign(self, stmt, st):
        if stmt.value is None:
            return [(st, ('normal',))]
        out = []
        for s, v in self.ev(stmt.value, st):
            out += [(s2, ('normal',)) for s2 in self.assign(stmt.target, v, s, stmt)]
        return out

    def st_AugAssign(self, stmt, st):
        out = []
        op = OPS[type(stmt.op)]
        load = ast.copy_location(ast.parse(ast.unparse(stmt.target), mode='eval').body, stmt)
        for n in ast.walk(load):
            ast.copy_location(n, stmt)
        for s, (cur, rhs) in self.ev_seq([load, stmt.value], st):
            if op == '+' and isinstance(cur, (View, bytes)) and isinstance(rhs, (View, bytes, Tup)):
                rs = [(s, v_concat(cur, rhs))]
            else:
                rs = self.binop(op, cur, rhs, s, stmt)
            for s2, v in rs:
                out += [(s3, ('normal',)) for s3 in self.assign(stmt.target, v, s2, stmt)]
        return out

    def st_Return(self, stmt, st):
        if stmt.value is None:
            return [(st, ('return', None))]
        return [(s, ('return', v)) for s, v in self.ev(stmt.value, st)]

    def st_Break(self, stmt, st):
        return [(st, ('break',))]

    def st_Continue(self, stmt, st):
        return [(st, ('continue',))]

    def st_Global(self, stmt, st):
        raise Unsupported('global statement')

    def st_Import(self, stmt, st):
        return [(st, ('normal',))]

    st_ImportFrom = st_Import

    def st_FunctionDef(self, stmt, st):
        st.env[stmt.name] = UserFn(self.frame.mod, self.frame.qual + '.<locals>.' + stmt.name, stmt, None, st.env)
        return [(st, ('normal',))]

    def truth_in(self, v, st, node):
        """truth(v) for a value whose class defines __bool__ (or __len__): the real method is executed (merged)."""
        if isinstance(v, (Ref, Rec)):
            for m in ('__bool__', '__len__'):
                ent = self.find_method(v.cls, m)
                if ent and ent[2] is not None:
                    rs = self.inline_call(UserFn(ent[0], ent[1], ent[2], v), [], {}, st, node, merge=True)
                    r = rs[0][1]
                    return self.truth(r) if m == '__bool__' else num_cmp('>', r, 0)
        return self.truth(v)

    def st_If(self, stmt, st):
        out = []
        for s, c in self.ev(stmt.test, st):
            t = simp(self.truth_in(c, s, stmt))
            if t is True:
                out += self.exec_block(stmt.body, s)
            elif t is False:
                out += self.exec_block(stmt.orelse, s)
            else:
                s1 = s.copy().assume(t)
                s2 = s.assume(b_not(t))
                if not s1.dead and self.feasible(s1):
                    out += self.exec_block(stmt.body, s1)
                if not s2.dead and self.feasible(s2):
                    out += self.exec_block(stmt.orelse, s2)
        return out

    def feasible(self, st):
        """Cheap pruning of infeasible branches: the quantifier-free part of the path condition is unsatisfiable.
        (Dropping hypotheses can only make more paths look feasible, so pruning on `unsat` is sound.)"""
        if self.dry:
            return True
        qf = [a for a in st.pc if not _has_quant(a)]
        if len(qf) < 2:
            return True
        sol = z3.Solver()
        sol.set('timeout', 300)
        for a in qf:
            sol.add(a)
        return sol.check() != z3.unsat

    def st_Assert(self, stmt, st):
        out = []
        for s, c in self.ev(stmt.test, st):
            t = simp(self.truth(c))
            s = self.fork_exc(s, t, 'AssertionError', stmt)
            if not s.dead:
                out.append((s, ('normal',)))
        return out

    def st_Raise(self, stmt, st):
        if stmt.exc is None:
            if st.cur_exc is None:
                raise Unsupported('bare raise outside handler')
            return [(st, ('raise', st.cur_exc, stmt.lineno))]
        out = []
        # the message expression is not evaluated (strings are opaque); only the class matters
        exc = stmt.exc
        if isinstance(exc, ast.Call):
            name = ast.unparse(exc.func)
        else:
            name = ast.unparse(exc)
        if name in st.env and isinstance(st.env[name], ExcVal):
            return [(st, ('raise', st.env[name], stmt.lineno))]
        cls = name if name in BUILTIN_EXC_BASES else name.split('.')[-1]
        return [(st, ('raise', ExcVal(cls), stmt.lineno))]

    def st_Try(self, stmt, st):
        outs = self.exec_block(stmt.body, st)
        res = []
        for s, oc in outs:
            if oc[0] == 'raise':
                handled = False
                for h in stmt.handlers:
                    names = []
                    if h.type is None:
                        names = ['BaseException']
                    elif isinstance(h.type, ast.Tuple):
                        names = [ast.unparse(e) for e in h.type.elts]
                    else:
                        names = [ast.unparse(h.type)]
                    names = [n if n in BUILTIN_EXC_BASES else n.split('.')[-1] for n in names]
                    if getattr(self, 'effect', None) is not None and oc[1].cls == 'Exception' and not any(self.is_subclass('Exception', n) for n in names) \
                            and any(self.is_subclass(n, 'Exception') for n in names):
                        # an untracked operation raised "some Exception": a handler for a subclass may or may not take it
                        s_h = s.copy()
                        if h.name:
                            s_h.env[h.name] = oc[1]
                        s_h.cur_exc = oc[1]
                        res += self.exec_block(h.body, s_h)
                        continue
                    if any(self.is_subclass(oc[1].cls, n) for n in names):
                        handled = True
                        if h.name:
                            s.env[h.name] = oc[1]
                        s.cur_exc = oc[1]
                        res += self.exec_block(h.body, s)
                        break
                if not handled:
                    res.append((s, oc))
            elif oc[0] == 'normal' and stmt.orelse:
                res += self.exec_block(stmt.orelse, s)
            else:
                res.append((s, oc))
        if stmt.finalbody:
            fin = []
            for s, oc in res:
                for s2, oc2 in self.exec_block(stmt.finalbody, s):
                    fin.append((s2, oc if oc2[0] == 'normal' else oc2))
            res = fin
        return res

    def st_With(self, stmt, st):
        if len(stmt.items) != 1:
            raise Unsupported('multi-item with')
        item = stmt.items[0]
        out = []
        for s, cm in self.ev(item.context_expr, st):
            if isinstance(cm, self.Opaque) and getattr(self, 'effect', None) is not None:
                # untracked context manager: __enter__ / __exit__ may raise; assumed not to suppress exceptions
                self.maybe_raise(s, item.context_expr)
                ss = self.assign(item.optional_vars, self.Opaque(), s, stmt) if item.optional_vars is not None else [s]
                self.assumptions_used.add('%s: context managers the model does not track do not suppress exceptions' % self.effect.func)
                for s3 in ss:
                    for s4, oc in self.exec_block(stmt.body, s3):
                        if oc[0] != 'raise':
                            self.maybe_raise(s4, item.context_expr)
                        out.append((s4, oc))
                continue
            if not isinstance(cm, Ref):
                raise Unsupported('with on %r' % (cm,))
            ent = self.find_method(cm.cls, '__enter__')
            ex = self.find_method(cm.cls, '__exit__')
            if ent is None or ex is None:
                raise Unsupported('context manager %s' % cm.cls)
            for s2, v in self.call_user(UserFn(ent[0], ent[1], ent[2], cm), [], {}, s, stmt):
                if item.optional_vars is not None:
                    ss = self.assign(item.optional_vars, v, s2, stmt)
                else:
                    ss = [s2]
                for s3 in ss:
                    for s4, oc in self.exec_block(stmt.body, s3):
                        if oc[0] == 'raise':
                            args = [TypeVal(oc[1].cls), oc[1], None]
                        else:
                            args = [None, None, None]
                        for s5, rv in self.call_user(UserFn(ex[0], ex[1], ex[2], cm), args, {}, s4, stmt):
                            if oc[0] == 'raise':
                                t = simp(self.truth(rv)) if rv is not None else False
                                if t is True:
                                    out.append((s5, ('normal',)))
                                    continue
                                if t is not False:
                                    raise Unsupported('__exit__ with symbolic suppression')
                            out.append((s5, oc))
        return out

    # ------------------------------------------------------------ loops
    def loop_spec(self, stmt):
        fr = self.frame
        if fr.contract is None or getattr(fr, 'inlined', False) and False:
            return None
        mod = fr.mod
        fnode = mod.functions.get(fr.qual)
        if fnode is None:
            return None
        loops = source.loops_of(fnode)
        try:
            idx = [id(x) for x in loops].index(id(stmt))
        except ValueError:
            return None
        c = fr.contract
        specs = c.loops if not getattr(fr, 'inlined', False) else getattr(self.reg.contracts.get((mod.relpath, fr.qual)), 'loops', [])
        if idx >= len(specs) or specs[idx] is None:
            return None
        sp = specs[idx]
        hdr = source.loop_header_text(stmt)
        if sp.anchor != hdr:
            raise ContractError('loop %d of %s: header is %r, contract expects %r' % (idx, fr.qual, hdr, sp.anchor))
        return idx, sp

    def assigned_in(self, nodes):
        """Names and attribute paths assigned anywhere in the statements (syntactic, for havoc)."""
        names, attrs, mutated = set(), set(), set()
        for stmt in nodes:
            for n in ast.walk(stmt):
                targets = []
                if isinstance(n, ast.Assign):
                    targets = n.targets
                elif isinstance(n, (ast.AugAssign, ast.AnnAssign)):
                    targets = [n.target]
                elif isinstance(n, (ast.For, ast.comprehension)):
                    targets = [n.target]
                elif isinstance(n, ast.With):
                    targets = [i.optional_vars for i in n.items if i.optional_vars is not None]
                elif isinstance(n, ast.ExceptHandler) and n.name:
                    names.add(n.name)
                elif isinstance(n, ast.Call) and isinstance(n.func, ast.Attribute) and \
                        n.func.attr in ('append', 'extend', 'insert', 'pop', 'clear', 'remove', 'sort', 'reverse'):
                    targets = [n.func.value]
                for t in targets:
                    for x in ast.walk(t) if isinstance(t, (ast.Tuple, ast.List)) else [t]:
                        if isinstance(x, ast.Name):
                            names.add(x.id)
                        elif isinstance(x, ast.Attribute):
                            attrs.add(ast.unparse(x))
                        elif isinstance(x, ast.Subscript):
                            b = x.value
                            if isinstance(b, ast.Name):
                                names.add(b.id)
                            elif isinstance(b, ast.Attribute):
                                attrs.add(ast.unparse(b))
        return names, attrs

    def callee_modifies(self, nodes, st):
        """'self.x' paths modified by contracted callees invoked as self.m(...) inside the statements."""
        paths = set()
        for stmt in nodes:
            for n in ast.walk(stmt):
                if isinstance(n, ast.Call) and isinstance(n.func, ast.Attribute):
                    recv = ast.unparse(n.func.value)
                    try:
                        rv = st.env.get(recv) if '.' not in recv else None
                    except Exception:
                        rv = None
                    if isinstance(rv, Ref):
                        ent = self.find_method(st.heap[rv.oid].cls if rv.oid in st.heap else rv.cls, n.func.attr)
                        if ent and ent[2] is not None:
                            c = self.reg.contracts.get((ent[0].relpath, ent[1]))
                            if c is not None:
                                for p in c.modifies:
                                    if isinstance(p, tuple):
                                        p = p[0]
                                    if p.startswith('self.'):
                                        paths.add(recv + p[4:])
        return paths

    def havoc_cells(self, st, cells, kinds_from=None):
        """Havoc heap cells given as (oid, field): the value is replaced by a fresh one of the same kind."""
        for oid, f in sorted(cells):
            o = st.heap.get(oid)
            if o is None:
                continue
            cur = o.fields.get(f)
            src = kinds_from.get((oid, f), cur) if kinds_from else cur
            try:
                k = self.kind_in_state(src, st) if not isinstance(src, Kind) else src
            except Unsupported:
                try:
                    k = self.kind_in_state(cur, st)
                except Unsupported as e:
                    raise Unsupported('cannot havoc field %s.%s for loop: %s' % (o.cls, f, e))
            facts = []
            nv = fresh(k, uid(f), (), facts)
            if isinstance(k, KRec) and (isinstance(cur, Ref) or isinstance(src, Ref)):
                nv = self.rec_to_obj(nv, st)
            o.fields[f] = nv
            for fa in facts:
                st.assume(fa)

    def discover_modified(self, stmt, st, sp, guard, pre_body, hy):
        """Dry-run the loop body symbolically (no obligations) from a havocked copy of the state and report every
        heap cell and local that an iteration can change; iterated to a fixpoint.  Catches effects the syntactic scan
        cannot see (builtin file methods, callee contracts on objects passed as arguments, inlined callees)."""
        cells, names = set(), set()
        kinds_from = {}
        for _round in range(4):
            trial = st.copy()
            try:
                self.havoc_for_loop(stmt.body, trial, sp, hy, extra_cells=cells, extra_names=names, kinds_from=kinds_from)
            except (Unsupported, ContractError):
                raise
            if pre_body is not None:
                pre_body('havoc', trial)
            base_heap = {oid: dict(o.fields) for oid, o in trial.heap.items()}
            base_env = dict(trial.env)
            self.dry += 1
            self.sinks.append([])
            outs = []
            try:
                try:
                    if guard is not None:
                        starts = [s for s, g in self.ev(guard, trial)]
                    else:
                        starts = [trial]
                    for s0 in starts:
                        bs = pre_body('enter', s0) if pre_body is not None else [s0]
                        for sb in bs:
                            outs += [s2 for s2, oc in self.exec_block(stmt.body, sb)]
                except (Unsupported, ContractError):
                    outs = outs      # the real pass will report it
                outs += [s2 for s2, e, ln in self.sinks[-1]]
            finally:
                self.sinks.pop()
                self.dry -= 1
            new_cells, new_names = set(), set()
            for s2 in outs:
                for oid, fields in base_heap.items():
                    o2 = s2.heap.get(oid)
                    if o2 is None:
                        continue
                    for f, v in o2.fields.items():
                        if fields.get(f, None) is not v and (oid, f) not in cells:
                            if oid in st.heap:
                                new_cells.add((oid, f))
                                kinds_from.setdefault((oid, f), v if f not in st.heap[oid].fields or st.heap[oid].fields[f] is None else st.heap[oid].fields[f])
                for n, v in s2.env.items():
                    if n in base_env and base_env[n] is not v and n in st.env and n not in names:
                        new_names.add(n)
            if not new_cells and not new_names:
                break
            cells |= new_cells
            names |= new_names
        return cells, names, kinds_from

    def havoc_for_loop(self, body, st, sp, has_yield, extra_cells=(), extra_names=(), kinds_from=None):
        names, attrs = self.assigned_in(body)
        attrs |= self.callee_modifies(body, st)
        attrs |= set(x for x in sp.havoc_extra if '.' in x)
        names |= set(x for x in sp.havoc_extra if '.' not in x)
        names |= set(extra_names)
        for n in sorted(names):
            if n in st.env:
                cur = st.env[n]
                k = sp.kinds.get(n)
                if k is None:
                    if isinstance(cur, (UserFn, Fn, ClassVal, DictVal)):
                        continue
                    k = self.kind_in_state(cur, st) if isinstance(cur, Ref) else kind_of(cur)
                facts = []
                nv = fresh(k, uid(n), (), facts)
                if isinstance(cur, Ref) and isinstance(nv, Rec):
                    nv = self.rec_to_obj(nv, st)
                st.env[n] = nv
                for f in facts:
                    st.assume(f)
        done = set()
        for p in sorted(attrs):
            try:
                self.havoc_path(p, st.env, st, sp.kinds)
            except (Unsupported, ContractError) as e:
                raise Unsupported('cannot havoc %s for loop: %s' % (p, e))
        if extra_cells:
            self.havoc_cells(st, extra_cells, kinds_from)
        if has_yield and st.out is not None:
            facts = []
            ek = self.frame.contract.yields if self.frame.contract else None
            if ek is None:
                raise ContractError('generator loop without `yields` kind')
            st.out = fresh(KView(ek), uid('out'), (), facts)
            for f in facts:
                st.assume(f)

    def st_While(self, stmt, st):
        if stmt.orelse:
            raise Unsupported('while-else')
        spec = self.loop_spec(stmt)
        if spec is None:
            raise ContractError('loop at line %d of %s has no invariant' % (stmt.lineno, self.frame.qual))
        idx, sp = spec
        return self.cut_loop(stmt, st, idx, sp, guard=stmt.test, pre_body=None)

    def cut_loop(self, stmt, st, idx, sp, guard, pre_body, extra_env=None):
        results = []
        hy = any(isinstance(n, (ast.Yield, ast.YieldFrom)) for b in stmt.body for n in ast.walk(b))
        # 1. invariant holds on entry
        for j, inv in enumerate(sp.invariants):
            self.oblige(st, 'inv-init#%d.%d' % (idx, j), self.spec_bool(inv, st, None, self.frame.old), stmt, note=inv)
        # 2. havoc + assume invariant
        if self.dry:
            cells, names2, kf = set(), set(), {}
        else:
            cells, names2, kf = self.discover_modified(stmt, st, sp, guard, pre_body, hy)
        self.havoc_for_loop(stmt.body, st, sp, hy, extra_cells=cells, extra_names=names2, kinds_from=kf)
        if pre_body is not None:
            pre_body('havoc', st)
        for inv in sp.invariants:
            st.assume(self.spec_bool(inv, st, None, self.frame.old))
        if st.dead:
            return []
        m0 = None
        if sp.decreases:
            m0 = self.spec(sp.decreases, st, None, self.frame.old)
        # 3. guard
        if guard is not None:
            grs = self.ev(guard, st)
        else:
            grs = [(st, pre_body('guard', st))]
        for s, g in grs:
            t = simp(self.truth(g))
            s_exit = s.copy().assume(b_not(t)) if t is not True else None
            s_body = s.assume(t) if t is not False else None
            if s_exit is not None and not s_exit.dead:
                results.append((s_exit, ('normal',)))
            if s_body is None or s_body.dead:
                continue
            if pre_body is not None:
                bstates = pre_body('enter', s_body)
            else:
                bstates = [s_body]
            for sb in bstates:
                for s2, oc in self.exec_block(stmt.body, sb):
                    if oc[0] in ('normal', 'continue'):
                        for j, inv in enumerate(sp.invariants):
                            self.oblige(s2, 'inv-keep#%d.%d' % (idx, j), self.spec_bool(inv, s2, None, self.frame.old), stmt, note=inv)
                        if m0 is not None:
                            m1 = self.spec(sp.decreases, s2, None, self.frame.old)
                            self.oblige(s2, 'decreases#%d' % idx, b_and(num_cmp('>=', m0, 0), num_cmp('<', m1, m0)), stmt)
                    elif oc[0] == 'break':
                        results.append((s2, ('normal',)))
                    else:
                        results.append((s2, oc))
        return results

    def st_For(self, stmt, st):
        spec = self.loop_spec(stmt)
        if stmt.orelse and not (spec is None or spec[1].unroll):
            raise Unsupported('for-else on a loop cut at an invariant')
        out = []
        for s, itv in self.ev(stmt.iter, st):
            seq = self.to_iter_view(itv, s, stmt)
            if spec is None or spec[1].unroll:
                n = simp(seq.length)
                if not is_conc_int(n) and spec is not None and spec[1].unroll:
                    n = self.entailed_int(s, n, 0, 64)      # a length the path condition fixes (e.g. a contract's len(x) == 17)
                if not is_conc_int(n):
                    raise ContractError('for loop at line %d of %s has no invariant' % (stmt.lineno, self.frame.qual))
                if n > 4096:
                    raise Unsupported('unrolling %d iterations' % n)
                pending = [s]
                for k in range(n):
                    nxt = []
                    for s2 in pending:
                        for s3 in self.assign(stmt.target, seq.get(k), s2, stmt):
                            for s4, oc in self.exec_block(stmt.body, s3):
                                if oc[0] in ('normal', 'continue'):
                                    nxt.append(s4)
                                elif oc[0] == 'break':
                                    out.append((s4, ('normal',)))
                                else:
                                    out.append((s4, oc))
                    pending = nxt
                if stmt.orelse:
                    # for ... else: the else suite runs when the loop was not left by break
                    for s2 in pending:
                        out += self.exec_block(stmt.orelse, s2)
                else:
                    out += [(s2, ('normal',)) for s2 in pending]
                continue
            idx, sp = spec
            kname = sp.index or '_k%d' % idx
            sname = sp.seq or '_seq%d' % idx
            s.env[kname] = 0
            s.env[sname] = seq

            def pre_body(phase, s2, _k=kname, _seq=seq, _stmt=stmt, _sname=sname):
                if phase == 'havoc':
                    k = z3.Int(uid(_k))
                    s2.env[_k] = k
                    s2.env[_sname] = _seq
                    s2.assume(z3.And(k >= 0, k <= to_int(_seq.length)))
                    return None
                if phase == 'guard':
                    return simp(num_cmp('<', s2.env[_k], _seq.length))
                if phase == 'enter':
                    k = s2.env[_k]
                    el = _seq.get(k)
                    if _seq.facts:
                        for f in _seq.facts(k):
                            s2.assume(f)
                    elif isinstance(_seq.ekind, KByte) and is_z3(el):
                        s2.assume(z3.And(el >= 0, el <= 255))
                    s2.env[_k] = simp(num_binop('+', k, 1, Pending()))
                    return self.assign(_stmt.target, el, s2, _stmt)
            # the automatic invariant 0 <= k <= len(seq) is established by construction
            self.oblige(s, 'inv-init#%d.range' % idx, num_cmp('>=', seq.length, 0), stmt)
            out += self.cut_loop(stmt, s, idx, sp, None, pre_body)
        return out

    # ------------------------------------------------------------ verifying one function against its contract
    def verify(self, c):
        mod = source.load(c.file)
        fnode = mod.functions.get(c.func)
        if fnode is None:
            raise ContractError('function %s not found in %s' % (c.func, c.file))
        self.functions_seen.add('%s:%s' % (c.file, c.func))
        fr = Frame(mod, c.func, c)
        self.frames.append(fr)
        self.sinks.append([])
        self.effect = c if getattr(c, 'unknown_calls', None) else None
        try:
            st = State()
            facts = []
            a = fnode.args
            pnames = [x.arg for x in a.posonlyargs + a.args + a.kwonlyargs]
            if a.vararg:
                pnames.append(a.vararg.arg)
            for p in pnames:
                if p not in c.params:
                    raise ContractError('parameter %s of %s has no kind in the contract' % (p, c.func))
            for p, k in list(c.params.items()) + list(c.ghost.items()):
                if isinstance(k, KOpaque):
                    st.env[p] = self.Opaque()
                    continue
                if not isinstance(k, Kind):
                    st.env[p] = DictVal(dict(k)) if isinstance(k, dict) else k      # a concrete value given by the contract (scope restriction)
                    continue
                v = fresh(k, p, (), facts)
                if isinstance(k, KRec):
                    v = self.rec_to_obj(v, st)
                st.env[p] = v
            for f in facts:
                st.assume(f)
            for a_ in c.assume:
                st.assume(self.spec_bool(a_, st))
                self.assumptions_used.add('%s: assumed axiom: %s' % (c.func, a_))
            for g, e in getattr(c, 'ghost_init', {}).items():
                st.env[g] = self.spec(e, st)
                if g in getattr(c, 'materialise_ghost', ()):
                    v = st.env[g]
                    if isinstance(v, View) and v.ekind is None:
                        v.ekind = Int
                    st.env[g] = self.materialise(v, st, g)
            fr.old = (dict(st.env), {k: HObj(o.cls, dict(o.fields)) for k, o in st.heap.items()})
            for r in c.requires:
                st.assume(self.spec_bool(r, st, None, fr.old))
            # cover: the precondition is satisfiable
            ob = Obligation('%s:%s/cover-pre' % (mod.relpath.split('/')[-1], c.name), list(st.pc), z3.BoolVal(False),
                            c.func, fnode.lineno, 'cover')
            ob.expect_fail = True
            self.obligations.append(ob)
            if source.has_yield(fnode):
                st.out = conc_seq_view([], c.yields, 'gen')
            outs = self.exec_block(fnode.body, st)
            normal = 0
            for s, oc in outs:
                if oc[0] == 'raise':
                    self.check_raise(c, s, oc, fr)
                    continue
                if oc[0] not in ('normal', 'return'):
                    raise Unsupported('break/continue outside loop')
                normal += 1
                rv = oc[1] if oc[0] == 'return' else None
                extra = {'result': rv}
                if s.out is not None:
                    extra['out'] = s.out
                    extra['result'] = s.out
                env_now = dict(fr.old[0])
                for g in getattr(c, 'ghost_init', {}):
                    env_now[g] = s.env.get(g)
                for p_ in c.params:
                    if p_ in s.env:
                        env_now['final_' + p_] = s.env[p_]
                # parameters in postconditions denote entry values except mutable objects (same reference)
                post = State()
                post.env = env_now
                post.env.update(extra)
                post.heap = s.heap
                post.pc = s.pc
                for k_ in list(s.env):
                    if k_.startswith('_psum'):
                        post.env[k_] = s.env[k_]
                if c.ghost_post:
                    newg = {g: self.materialise(self.spec(e, post, None, fr.old), s, g) for g, e in c.ghost_post.items()}
                    post.env.update(newg)
                for h in c.exit_hints:
                    # seed(t) for a fresh uninterpreted predicate `seed`: satisfiable by seed = true, so it adds no
                    # logical content; it only puts the term t into the e-graph for quantifier instantiation
                    hs = State()
                    hs.env = dict(s.env)
                    hs.env.update(extra)
                    hs.heap = s.heap
                    hs.pc = s.pc
                    self.sinks.append([])
                    try:
                        t = self.spec(h, hs, None, fr.old)
                    except Unsupported:
                        t = None
                    finally:
                        self.sinks.pop()
                    if is_z3(t):
                        seed = z3.Function('seed_' + t.sort().name(), t.sort(), z3.BoolSort())
                        s.assume(seed(t))
                for li, lem in enumerate(c.exit_lemmas):
                    self.prove_induction(s, post, lem, li, fnode, fr)
                for i, e in enumerate(c.ensures):
                    self.oblige(s, 'post#%d' % i, self.spec_bool(e, post, None, fr.old), fnode, note=e)
                pre = State()
                pre.env = dict(fr.old[0])
                pre.heap = fr.old[1]
                pre.pc = s.pc
                for ecls, cond in c.raises.items():
                    self.oblige(s, 'noraise:%s' % ecls, b_not(self.spec_bool(cond, pre, None, fr.old)), fnode,
                                note='returns normally only if not (%s)' % cond)
                self.check_frame(c, s, fr, fnode)
                for i, cn in enumerate(c.canaries):
                    o = Obligation('%s:%s/canary#%d' % (mod.relpath.split('/')[-1], c.name, i), list(s.pc),
                                   to_bool_term(simp(self.spec_bool(cn, post, None, fr.old))) if simp(self.spec_bool(cn, post, None, fr.old)) not in (True, False) else z3.BoolVal(bool(simp(self.spec_bool(cn, post, None, fr.old)))),
                                   c.func, fnode.lineno, 'canary', cn)
                    o.expect_fail = True
                    self.obligations.append(o)
            for s, e, line in self.sinks[-1]:
                self.check_raise(c, s, ('raise', e, line), fr)
        finally:
            self.effect = None
            self.sinks.pop()
            self.frames.pop()

    def materialise(self, v, st, name='g'):
        """Name a derived view: a fresh uninterpreted view constrained to be equal to v element-wise, so that
        quantifier triggers can mention its elements."""
        if not isinstance(v, View) or v.ekind is None:
            return v
        facts = []
        nv = fresh(KView(v.ekind), uid(name), (), facts)
        for f in facts:
            st.assume(f)
        st.assume(num_cmp('==', nv.length, v.length))
        i = z3.Int(uid('mi'))
        eq = simp(v_eq(nv.get(i), v.get(i)))
        if eq is not True:
            pat = nv.get(i)
            body = z3.Implies(z3.And(i >= 0, i < to_int(nv.length)), to_bool_term(eq))
            try:
                st.assume(z3.ForAll([i], body, patterns=[pat]) if is_z3(pat) else z3.ForAll([i], body))
            except z3.Z3Exception:
                st.assume(z3.ForAll([i], body))
        return nv

    def prove_induction(self, s, post, lem, li, fnode, fr):
        n = z3.Int(uid(lem.var))
        lo = self.spec(lem.lo, post, None, fr.old)
        hi = self.spec(lem.hi, post, None, fr.old)
        base = self.spec_bool(lem.claim, post, {lem.var: lo}, fr.old)
        self.oblige(s, 'lemma#%d.base' % li, b_implies(num_cmp('<=', lo, hi), base), fnode, note='%s at %s' % (lem.claim, lem.lo))
        hyp = self.spec_bool(lem.claim, post, {lem.var: n}, fr.old)
        nxt = self.spec_bool(lem.claim, post, {lem.var: n + 1}, fr.old)
        s2 = s.copy()
        s2.assume(z3.And(to_int(lo) <= n, n < to_int(hi)))
        s2.assume(hyp)
        self.oblige(s2, 'lemma#%d.step' % li, nxt, fnode, note='%s: n -> n+1' % lem.claim)
        m = z3.Int(uid(lem.var))
        allc = self.spec_bool(lem.claim, post, {lem.var: m}, fr.old)
        s.assume(z3.ForAll([m], z3.Implies(z3.And(to_int(lo) <= m, m <= to_int(hi)), to_bool_term(allc))))

    def verify_lemma(self, lem):
        from .source import ModuleInfo
        class _M:
            relpath = '<lemma>'
            functions = {}
            classes = {}
            assigns = {}
            imports = {}
        c = Contract('<lemma>', lem.name)
        fr = Frame(_M(), lem.name, c)
        self.frames.append(fr)
        self.sinks.append([])
        try:
            st = State()
            facts = []
            for p, k in lem.params.items():
                v = fresh(k, p, (), facts)
                if isinstance(k, KRec):
                    v = self.rec_to_obj(v, st)
                st.env[p] = v
            for f in facts:
                st.assume(f)
            fr.old = (dict(st.env), {k: HObj(o.cls, dict(o.fields)) for k, o in st.heap.items()})
            for r in lem.requires:
                st.assume(self.spec_bool(r, st, None, fr.old))
            ob = Obligation('<lemma>:%s/cover-pre' % lem.name, list(st.pc), z3.BoolVal(False), lem.name, 0, 'cover')
            ob.expect_fail = True
            self.obligations.append(ob)
            for i, e in enumerate(lem.ensures):
                self.oblige(st, 'lemma#%d' % i, self.spec_bool(e, st, None, fr.old), None, note=e)
        finally:
            self.sinks.pop()
            self.frames.pop()

    def rec_to_obj(self, rec, st):
        fields = {}
        for f, v in rec.fields.items():
            if isinstance(v, Rec) and getattr(v, '_as_obj', True):
                v = self.rec_to_obj(v, st)
            fields[f] = v
        return st.new_obj(rec.cls, fields)

    def check_raise(self, c, s, oc, fr):
        ecls = oc[1].cls
        line = oc[2] if len(oc) > 2 else 0
        allowed = []
        for table in (c.raises, c.may_raise):
            for k, cond in table.items():
                if self.is_subclass(ecls, k):
                    allowed.append(cond)
        post = State()
        post.env = dict(fr.old[0])
        post.heap = s.heap
        post.pc = s.pc
        if not allowed:
            self.oblige(s, 'noexc:%s@%s' % (ecls, self.site(_L(line), 'exc')), False, _L(line),
                        note='undeclared exception %s raised at line %d' % (ecls, line))
            return
        pre = State()
        pre.env = dict(fr.old[0])
        pre.heap = fr.old[1]
        pre.pc = s.pc
        self.oblige(s, 'raises:%s@%s' % (ecls, self.site(_L(line), 'exc')),
                    b_or(*[self.spec_bool(cond, pre, None, fr.old) for cond in allowed]), _L(line),
                    note='%s raised at line %d only when its condition holds' % (ecls, line))
        for k, posts in c.ensures_exc.items():
            if self.is_subclass(ecls, k):
                for i, e in enumerate(posts):
                    self.oblige(s, 'post-exc:%s#%d' % (k, i), self.spec_bool(e, post, None, fr.old), _L(line), note=e)

    def check_frame(self, c, s, fr, fnode):
        """Fields of parameter objects not listed in `modifies` are unchanged."""
        old_env, old_heap = fr.old
        mod_fields = set()
        for path in c.modifies:
            if isinstance(path, tuple):
                path = path[0]
            parts = path.split('.')
            tmp = State()
            tmp.env = old_env
            tmp.heap = old_heap
            try:
                obj = self.spec('.'.join(parts[:-1]), tmp)
            except Exception:
                continue
            if isinstance(obj, Ref):
                mod_fields.add((obj.oid, parts[-1]))
        for oid, o in old_heap.items():
            now = s.heap.get(oid)
            if now is None:
                continue
            for f, v in o.fields.items():
                if (oid, f) in mod_fields:
                    continue
                nv = now.fields.get(f)
                if nv is v:
                    continue
                try:
                    eq = v_eq(nv, v)
                except Unsupported:
                    eq = False
                self.oblige(s, 'frame:%s.%s' % (o.cls, f), eq, fnode, note='field %s.%s not in modifies' % (o.cls, f))


class _L:
    def __init__(self, line):
        self.lineno = line
        self.col_offset = 0
