"""Models of Python builtins and of the spec-language functions.  Everything here is part of the
trusted base (assumption register 1: CPython builtins behave as documented)."""
import fractions
import z3
from .kinds import *
from . import ops
from .ops import (Pending, num_binop, num_cmp, b_and, b_or, b_not, b_implies, v_ite, v_eq, as_view, v_len,
                  norm_index, v_slice, v_concat, v_append, v_store, conc_seq_view, range_view)


def install(eng):
    from .engine import DictVal, SetVal, StructVal, TypeVal, ClassVal, UserFn
    B = eng.builtins

    def reg(name):
        def deco(f):
            B[name] = Fn(f, name)
            return f
        return deco

    def one(st, v):
        return [(st, v)]

    # ------------------------------------------------ spec language
    def mk_patterns(eng, st, pats, vs, node):
        """trigger=lambda i: t | (t1, t2) (multi-pattern) | [alt1, alt2, ...] (alternative patterns)"""
        if pats is None:
            return None
        pv = pats.call(eng, st, vs, {}, node)[0][1]
        alts = [pv]
        if isinstance(pv, View) and is_conc_int(pv.length):
            alts = [pv.get(k) for k in range(pv.length)]
        out = []
        for a in alts:
            pl = list(a.items) if isinstance(a, Tup) else [a]
            if not all(is_z3(x) for x in pl):
                return None
            out.append(z3.MultiPattern(*pl) if len(pl) > 1 else pl[0])
        return out

    def auto_patterns(vs, body):
        """Applications f(.., v, ..) of uninterpreted functions whose argument is exactly a bound variable:
        plain `view[i]` terms.  One alternative pattern per function (only for single-variable quantifiers)."""
        if len(vs) != 1:
            return None
        v = vs[0]
        found = {}
        seen = set()
        stack = [body]
        while stack:
            t = stack.pop()
            if t.get_id() in seen:
                continue
            seen.add(t.get_id())
            if z3.is_quantifier(t):
                continue
            if z3.is_app(t) and t.decl().kind() == z3.Z3_OP_UNINTERPRETED and t.num_args() > 0:
                if any(a.eq(v) for a in t.children()) and all(a.eq(v) or not _mentions(a, v) for a in t.children()):
                    found.setdefault(t.decl().name(), t)
            stack.extend(t.children())
        local = {k: t for k, t in found.items() if '!' in k}
        if local:
            # facts about a local (havocked / returned) sequence are triggered by terms of that sequence only;
            # using the ghost layout arrays as triggers too creates matching loops
            found = local
        return list(found.values()) or None

    def _mentions(t, v):
        stack = [t]
        seen = set()
        while stack:
            x = stack.pop()
            if x.get_id() in seen:
                continue
            seen.add(x.get_id())
            if x.eq(v):
                return True
            stack.extend(x.children())
        return False

    def mk_forall(vs, body, pats):
        if not pats:
            pats = auto_patterns(vs, body)
        if pats:
            try:
                return z3.ForAll(vs, body, patterns=pats)
            except z3.Z3Exception:
                pass
        return z3.ForAll(vs, body)

    @reg('forall')
    def _forall(eng, st, args, kw, node):
        lo, hi, body = args
        if is_conc_int(simp(lo)) and is_conc_int(simp(hi)) and simp(hi) <= simp(lo):
            return one(st, True)       # empty range: vacuously true (the body is not evaluated on a concretely empty sequence)
        i = z3.Int(uid('q'))
        r = body.call(eng, st, [i], {}, node)[0][1]
        r = simp(eng.truth(r))
        if r is True:
            return one(st, True)
        guard = z3.And(to_int(lo) <= i, i < to_int(hi))
        return one(st, mk_forall([i], z3.Implies(guard, to_bool_term(r)), mk_patterns(eng, st, kw.get('trigger'), [i], node)))

    @reg('forall_n')
    def _forall_n(eng, st, args, kw, node):
        (body,) = args
        import ast as _ast
        lam = [a for a in node.args if isinstance(a, _ast.Lambda)][0]
        vs = [z3.Int(uid('q')) for _ in range(len(lam.args.args))]
        r = simp(eng.truth(body.call(eng, st, vs, {}, node)[0][1]))
        if r is True:
            return one(st, True)
        return one(st, mk_forall(vs, to_bool_term(r), mk_patterns(eng, st, kw.get('trigger'), vs, node)))

    @reg('exists')
    def _exists(eng, st, args, kw, node):
        lo, hi, body = args
        i = z3.Int(uid('e'))
        r = simp(eng.truth(body.call(eng, st, [i], {}, node)[0][1]))
        guard = z3.And(to_int(lo) <= i, i < to_int(hi))
        return one(st, z3.Exists([i], z3.And(guard, to_bool_term(r))))

    @reg('forall_int')
    def _forall_int(eng, st, args, kw, node):
        (body,) = args
        i = z3.Int(uid('q'))
        r = simp(eng.truth(body.call(eng, st, [i], {}, node)[0][1]))
        return one(st, z3.ForAll([i], to_bool_term(r)))

    @reg('implies')
    def _implies(eng, st, args, kw, node):
        a, b = args
        return one(st, simp(b_implies(eng.truth(a), eng.truth(b))))

    @reg('iff')
    def _iff(eng, st, args, kw, node):
        a, b = args
        return one(st, simp(to_bool_term(eng.truth(a)) == to_bool_term(eng.truth(b))))

    @reg('ite')
    def _ite(eng, st, args, kw, node):
        c, a, b = args
        return one(st, v_ite(simp(eng.truth(c)), a, b))

    @reg('is_none')
    def _is_none(eng, st, args, kw, node):
        return one(st, v_eq(args[0], None))

    @reg('is_int')
    def _is_int(eng, st, args, kw, node):
        return one(st, is_intlike(args[0]) and not is_boollike(args[0]))

    @reg('real')
    def _real(eng, st, args, kw, node):
        return one(st, to_real(args[0]))

    @reg('pow2')
    def _pow2(eng, st, args, kw, node):
        return one(st, ops.pow2_real(args[0]))

    @reg('floor')
    def _floor(eng, st, args, kw, node):
        v = args[0]
        if is_intlike(v):
            return one(st, v)
        return one(st, z3.ToInt(to_real(v)))

    @reg('seq')
    def _seq(eng, st, args, kw, node):
        """seq(n, lambda i: e): the sequence of length n whose element i is e."""
        n, body = args
        return one(st, View(n, lambda i: body.call(eng, st, [i], {}, node)[0][1], None, None, 'list'))

    def method(name):
        def deco(f):
            B['method:' + name] = Fn(f, name)
            return f
        return deco

    # ------------------------------------------------ plain builtins
    @reg('len')
    def _len(eng, st, args, kw, node):
        v = args[0]
        from .engine import AbsSet
        if isinstance(v, AbsSet):
            # one length term per abstract set (not one per evaluation): two mentions of len(S) are the same term.  The term
            # carries its own meaning (0 iff empty, else some number >= 1), so nothing has to be assumed on the side - an
            # assumption made while a hypothesis is being built would be lost
            n = getattr(v, '_len_sym', None)
            if n is None:
                k_ = z3.Int(uid('setlen'))
                n = z3.If(to_bool_term(v.empty), z3.IntVal(0), z3.If(k_ >= 0, 1 + k_, z3.IntVal(1)))
                try:
                    v._len_sym = n
                except AttributeError:
                    pass
            return one(st, n)
        if isinstance(v, DictVal):
            return one(st, len(v.d))
        if isinstance(v, SetVal):
            return one(st, len(v.items))
        if isinstance(v, (Ref, Rec)):
            ent = eng.find_method(v.cls, '__len__')
            if ent and ent[2] is not None:
                return eng.call_user(UserFn(ent[0], ent[1], ent[2], v), [], {}, st, node)
            flds = st.heap[v.oid].fields if isinstance(v, Ref) else v.fields
            if v.cls == 'range' and all(k_ in flds for k_ in ('start', 'stop', 'step')):
                # KRec('range', start=.., stop=.., step=..): a range object given by its three attributes
                return one(st, v_len(ops.range_view(flds['start'], flds['stop'], flds['step'])))
            if v.cls == 'ndarray' and 'rows' in flds:
                # KRec('ndarray', rows=..., dtype=...): an array abstracted to the sequence of its rows (ids) and its dtype
                return one(st, v_len(flds['rows']))
        if isinstance(v, Opt):
            st = eng.fork_exc(st, b_not(v.isnone), 'TypeError', node)
            v = v.val
        return one(st, v_len(v))

    @reg('range')
    def _range(eng, st, args, kw, node):
        if len(args) == 1:
            a, b, c = 0, args[0], 1
        elif len(args) == 2:
            a, b, c = args[0], args[1], 1
        else:
            a, b, c = args
        c = simp(c)
        if not is_conc_int(c):
            st = eng.fork_exc(st, num_cmp('!=', c, 0), 'ValueError', node)
        elif c == 0:
            eng.throw(st, 'ValueError', node)
            return []
        return one(st, range_view(a, b, c))

    @reg('int')
    def _int(eng, st, args, kw, node):
        if not args:
            return one(st, 0)
        v = args[0]
        if isinstance(v, bool):
            return one(st, int(v))
        if isinstance(v, fractions.Fraction):
            return one(st, int(v))
        if is_intlike(v):
            return one(st, to_int(v) if is_z3(v) else v)
        if is_reallike(v):
            r = to_real(v)
            return one(st, z3.If(r >= 0, z3.ToInt(r), -z3.ToInt(-r)))
        if is_strlike(v):
            return eng.builtins['str_to_int'].call(eng, st, args, kw, node)
        raise Unsupported('int(%r)' % (v,))

    @reg('float')
    def _float(eng, st, args, kw, node):
        v = args[0]
        if isinstance(v, (int, fractions.Fraction)):
            return one(st, fractions.Fraction(v))
        if is_strlike(v):
            return eng.builtins['str_to_float'].call(eng, st, args, kw, node)
        return one(st, to_real(v))

    @reg('round')
    def _round(eng, st, args, kw, node):
        # round(x) of a real to an integer: nearest, ties to even (Python 3)
        if len(args) != 1:
            raise Unsupported('round with ndigits')
        v = args[0]
        if isinstance(v, (int, fractions.Fraction)):
            return one(st, round(fractions.Fraction(v)))
        if is_intlike(v):
            return one(st, v)
        x = to_real(v)
        r = z3.ToInt(x + z3.Q(1, 2))
        tie = (x + z3.Q(1, 2)) == z3.ToReal(r)
        return one(st, z3.If(z3.And(tie, r % 2 != 0), r - 1, r))

    @reg('bool')
    def _bool(eng, st, args, kw, node):
        return one(st, simp(eng.truth(args[0])))

    @reg('abs')
    def _abs(eng, st, args, kw, node):
        v = args[0]
        if isinstance(v, (int, fractions.Fraction)):
            return one(st, abs(v))
        t = to_int(v) if is_intlike(v) else to_real(v)
        return one(st, z3.If(t >= 0, t, -t))

    def _minmax(is_min):
        def f(eng, st, args, kw, node):
            if len(args) == 1:
                vv = as_view(args[0])
                if not is_conc_int(vv.length):
                    raise Unsupported('min/max of symbolic sequence')
                args = [vv.get(i) for i in range(vv.length)]
            r = args[0]
            for x in args[1:]:
                c = simp(num_cmp('<' if is_min else '>', x, r))
                r = v_ite(c, x, r)
            return one(st, r)
        return f
    B['min'] = Fn(_minmax(True), 'min')
    B['max'] = Fn(_minmax(False), 'max')

    @reg('isinstance')
    def _isinstance(eng, st, args, kw, node):
        v, t = args
        ts = t.items if isinstance(t, Tup) else [t]
        res = []
        for ty in ts:
            name = ty.name if isinstance(ty, (TypeVal, ClassVal)) else getattr(ty, 'name', None)
            if name is None and getattr(ty, 'dotted', None) in ('numbers.Real', 'numbers.Number'):
                name = ty.dotted.split('.')[-1]
            res.append(inst(eng, v, name))
        return one(st, simp(b_or(*res)))

    def inst(eng, v, name):
        if isinstance(v, Opt):
            if name == 'NoneType':
                return v.isnone
            return b_and(b_not(v.isnone), inst(eng, v.val, name))
        if name == 'int':
            return is_intlike(v) or is_boollike(v) if not isinstance(v, fractions.Fraction) else False
        if name in ('Real', 'Number'):       # numbers.Real / numbers.Number: every int, bool, float (and Fraction)
            return is_intlike(v) or is_boollike(v) or is_reallike(v) or isinstance(v, fractions.Fraction)
        if name == 'float':
            return is_reallike(v)
        if name == 'bool':
            return is_boollike(v)
        if name == 'str':
            return is_strlike(v)
        if name in ('bytes', 'bytearray'):
            return isinstance(v, bytes) or isinstance(v, View) and v.tag == 'bytes'
        if name == 'list':
            return isinstance(v, View) and v.tag in ('list',)
        if name == 'tuple':
            return isinstance(v, Tup)
        if name == 'NoneType':
            return v is None
        if isinstance(v, (Ref, Rec)):
            return eng.is_subclass(v.cls, name)
        if isinstance(v, ExcVal):
            return eng.is_subclass(v.cls, name)
        return False

    for tname in ('bool', 'str', 'list', 'tuple', 'dict', 'set', 'object', 'slice', 'frozenset'):
        pass

    @reg('locals')
    def _locals(eng, st, args, kw, node):
        """locals(): the local names of the executing function as a read-only dictionary (names bound to values the model has)."""
        from .engine import DictVal
        return one(st, DictVal({k: v for k, v in st.env.items() if isinstance(k, str)}))

    @reg('type')
    def _type(eng, st, args, kw, node):
        v = args[0]
        if v is None:
            return one(st, TypeVal('NoneType'))
        if isinstance(v, (Ref, Rec)):
            return one(st, TypeVal(v.cls))
        k = 'int' if is_intlike(v) and not is_boollike(v) else 'float' if is_reallike(v) else 'bool' if is_boollike(v) \
            else 'str' if is_strlike(v) else 'bytes' if (isinstance(v, bytes) or isinstance(v, View) and v.tag == 'bytes') else None
        if k is None:
            raise Unsupported('type(%r)' % (v,))
        return one(st, TypeVal(k))

    @reg('bytes')
    def _bytes(eng, st, args, kw, node):
        if not args:
            return one(st, b'')
        v = args[0]
        if isinstance(v, (bytes, View)):
            vv = as_view(v)
            return one(st, View(vv.length, vv.get, Byte, vv.facts, 'bytes'))
        if is_intlike(v):
            n = simp(v)
            return one(st, View(n, lambda i: 0, Byte, None, 'bytes'))
        raise Unsupported('bytes(%r)' % (v,))
    B['bytearray'] = B['bytes']

    @reg('list')
    def _list(eng, st, args, kw, node):
        if not args:
            return one(st, conc_seq_view([], None, 'list'))
        v = eng.to_iter_view(args[0], st, node)
        return one(st, View(v.length, v.get, v.ekind, v.facts, 'list'))

    @reg('tuple')
    def _tuple(eng, st, args, kw, node):
        if not args:
            return one(st, Tup([]))
        v = eng.to_iter_view(args[0], st, node)
        if is_conc_int(v.length):
            return one(st, Tup([v.get(i) for i in range(v.length)]))
        return one(st, View(v.length, v.get, v.ekind, v.facts, 'tuple'))

    @reg('reversed')
    def _reversed(eng, st, args, kw, node):
        v = eng.to_iter_view(args[0], st, node)
        n = v.length
        return one(st, View(n, lambda i: v.get(simp(num_binop('-', num_binop('-', n, 1, Pending()), i, Pending()))),
                            v.ekind, None, 'list'))

    @reg('enumerate')
    def _enumerate(eng, st, args, kw, node):
        v = eng.to_iter_view(args[0], st, node)
        start = args[1] if len(args) > 1 else kw.get('start', 0)
        ek = KTup(Int, v.ekind) if v.ekind is not None else None

        def facts(i):
            return v.facts(i) if v.facts else []
        return one(st, View(v.length, lambda i: Tup([simp(num_binop('+', i, start, Pending())), v.get(i)]), ek,
                            facts if v.facts else None, 'list'))

    @reg('zip')
    def _zip(eng, st, args, kw, node):
        vs = [eng.to_iter_view(a, st, node) for a in args]
        n = vs[0].length
        for v in vs[1:]:
            n = v_ite(simp(num_cmp('<', v.length, n)), v.length, n)
        return one(st, View(simp(n), lambda i: Tup([v.get(i) for v in vs]), None, None, 'list'))

    @reg('sum')
    def _sum(eng, st, args, kw, node):
        v = eng.to_iter_view(args[0], st, node)
        if is_conc_int(v.length):
            r = args[1] if len(args) > 1 else 0
            for i in range(v.length):
                r = num_binop('+', r, v.get(i), Pending())
            return one(st, r)
        # symbolic length: prefix-sum function with its defining axioms
        S = z3.Function(uid('psum'), z3.IntSort(), z3.IntSort())
        n = z3.Int(uid('n'))
        st.assume(S(0) == 0)
        st.assume(z3.ForAll([n], z3.Implies(z3.And(n >= 0, n < to_int(v.length)), S(n + 1) == S(n) + to_int(v.get(n))),
                            patterns=[S(n + 1)]))
        st.env['_psum'] = Fn(lambda eng2, s2, a2, k2, n2, _S=S: [(s2, _S(to_int(a2[0])))], '_psum')
        return one(st, S(to_int(v.length)))

    class Opaque:
        """A value the model does not track (sets of characters used only for log messages)."""
        def __repr__(self):
            return 'Opaque'
    eng.Opaque = Opaque

    def opaque_fn(name):
        def f(eng, st, args, kw, node):
            return one(st, Opaque())
        B[name] = Fn(f, name)
    for nm in ('set', 'frozenset', 'chr', 'repr', 'str', 'hex', 'ord'):
        opaque_fn(nm)

    def _set_of_bytes(eng, st, args, kw, node):
        """set(b) of a bytes value: concrete bytes give the concrete set; a symbolic byte string gives a set known through its
        membership predicate (t is in it iff some position holds t) that remembers the string it was made from.  Any other
        argument: untracked, as before."""
        from .engine import AbsSet, SetVal
        from .kinds import KByte as _KByte
        if len(args) == 1 and isinstance(args[0], bytes):
            return one(st, SetVal(sorted(set(args[0]))))
        if len(args) == 1 and isinstance(args[0], View) and is_conc_int(simp(args[0].length)) and simp(args[0].length) <= 4096:
            els = [simp(args[0].get(i_)) for i_ in range(simp(args[0].length))]
            if all(is_conc_int(e_) for e_ in els):
                return one(st, SetVal(sorted(set(els))))      # e.g. set(range(0, 128)): the concrete set
        if len(args) == 1 and isinstance(args[0], View) and isinstance(args[0].ekind, _KByte):
            v = args[0]
            def mem(t, _v=v):
                k = z3.Int(uid('sk'))
                return z3.Exists([k], z3.And(k >= 0, k < to_int(_v.length), to_int(_v.get(k)) == to_int(t)))
            a = AbsSet(mem, simp(num_cmp('==', v.length, 0)))
            a._src = v
            return one(st, a)
        return one(st, Opaque())
    B['set'] = Fn(_set_of_bytes, 'set')

    @method('issubset')
    def _issubset(eng, st, args, kw, node):
        from .engine import AbsSet
        recv, other = args
        src = getattr(recv, '_src', None)
        if not isinstance(recv, AbsSet) or src is None:
            raise Unsupported('issubset on a set that was not made from a byte string')
        k = z3.Int(uid('ss'))
        el = src.get(k)
        inn = to_bool_term(simp(eng.contains(other, el)))
        return one(st, z3.ForAll([k], z3.Implies(z3.And(k >= 0, k < to_int(src.length)), inn), patterns=[to_int(el)] if is_z3(el) and not z3.is_var(el) else []))

    @reg('sorted')
    def _sorted(eng, st, args, kw, node):
        v = args[0]
        if isinstance(v, (View, bytes, Tup)):
            vv = as_view(v)
            if is_conc_int(vv.length) and all(is_concrete(vv.get(i)) for i in range(vv.length)):
                return one(st, conc_seq_view(sorted(vv.get(i) for i in range(vv.length)), vv.ekind, 'list'))
        return one(st, Opaque())

    @method('join')
    def _join(eng, st, args, kw, node):
        return one(st, z3.String(uid('join')))

    # ------------------------------------------------ abstract string operations (trusted; axioms stated here)
    SPLIT_LEN = z3.Function('split_comma_len', z3.StringSort(), z3.IntSort())
    SPLIT_PART = z3.Function('split_comma_part', z3.StringSort(), z3.IntSort(), z3.StringSort())
    PY_STRIP = z3.Function('py_strip', z3.StringSort(), z3.StringSort())
    PY_INT = z3.Function('py_int', z3.StringSort(), z3.IntSort())
    PY_INT_OK = z3.Function('py_int_ok', z3.StringSort(), z3.BoolSort())

    def split_view(eng, st, s):
        t = to_str_term(s)
        n = SPLIT_LEN(t)
        comma = z3.StringVal(',')
        st.assume(n >= 1)
        st.assume(z3.Contains(t, comma) == (n >= 2))
        st.assume(z3.Implies(n == 1, SPLIT_PART(t, 0) == t))
        st.assume(z3.Implies(n == 2, t == z3.Concat(SPLIT_PART(t, 0), comma, SPLIT_PART(t, 1))))
        st.assume(z3.Implies(n == 3, t == z3.Concat(SPLIT_PART(t, 0), comma, SPLIT_PART(t, 1), comma, SPLIT_PART(t, 2))))
        i = z3.Int(uid('sp'))
        st.assume(z3.ForAll([i], z3.Implies(z3.And(i >= 0, i < n), z3.Not(z3.Contains(SPLIT_PART(t, i), comma))), patterns=[SPLIT_PART(t, i)]))
        eng.trusted_used.add("str.split(','), str.strip(), int(str): abstract functions (split_comma_part/len, py_strip, py_int, py_int_ok) "
                             "with the axioms in pyvc/builtins.py; the real parsing is covered by the bounded stand-in")
        return View(n, lambda k: SPLIT_PART(t, to_int(k)), Str, None, 'list')

    @method('split')
    def _split(eng, st, args, kw, node):
        s = args[0]
        if len(args) == 2 and args[1] == ',' and is_strlike(s):
            if isinstance(s, str):
                return one(st, conc_seq_view(s.split(','), Str, 'list'))
            return one(st, split_view(eng, st, s))
        raise Unsupported('str.split with this separator')

    @method('strip')
    def _strip(eng, st, args, kw, node):
        s = args[0]
        if isinstance(s, str) and len(args) == 1:
            return one(st, s.strip())
        if len(args) == 1 and is_strlike(s):
            return one(st, PY_STRIP(to_str_term(s)))
        raise Unsupported('strip with arguments')

    PY_LOWER = z3.Function('py_lower', z3.StringSort(), z3.StringSort())

    @method('is_integer')
    def _is_integer(eng, st, args, kw, node):
        v = args[0]
        if isinstance(v, (int, fractions.Fraction)):
            return one(st, fractions.Fraction(v).denominator == 1)
        if is_intlike(v):
            return one(st, True)
        r = to_real(v)
        return one(st, r == z3.ToReal(z3.ToInt(r)))

    @method('lower')
    def _lower(eng, st, args, kw, node):
        s = args[0]
        if isinstance(s, str):
            return one(st, s.lower())
        if is_strlike(s):
            eng.trusted_used.add('str.lower(): abstract function py_lower')
            return one(st, PY_LOWER(to_str_term(s)))
        raise Unsupported('lower on %r' % (s,))

    B['py_lower'] = Fn(lambda eng, st, args, kw, node: [(st, args[0].lower() if isinstance(args[0], str) else PY_LOWER(to_str_term(args[0])))], 'py_lower')

    @reg('str_to_int')
    def _str_to_int(eng, st, args, kw, node):
        s = args[0]
        if isinstance(s, str):
            try:
                return one(st, int(s))
            except ValueError:
                eng.throw(st, 'ValueError', node)
                return []
        t = to_str_term(s)
        st = eng.fork_exc(st, PY_INT_OK(t), 'ValueError', node)
        if st.dead:
            return []
        return one(st, PY_INT(t))

    PY_FLOAT = z3.Function('py_float', z3.StringSort(), z3.RealSort())
    PY_FLOAT_OK = z3.Function('py_float_ok', z3.StringSort(), z3.BoolSort())

    @reg('str_to_float')
    def _str_to_float(eng, st, args, kw, node):
        s = args[0]
        if isinstance(s, str):
            try:
                return one(st, fractions.Fraction(float(s)))
            except (ValueError, OverflowError):
                eng.throw(st, 'ValueError', node)
                return []
        t = to_str_term(s)
        eng.trusted_used.add("float(str): abstract functions py_float_ok / py_float (which texts parse, and to what, is CPython's; "
                             "nan / inf texts are treated as numbers); the real parsing is covered by the bounded stand-in")
        st = eng.fork_exc(st, PY_FLOAT_OK(t), 'ValueError', node)
        if st.dead:
            return []
        return one(st, PY_FLOAT(t))

    B['py_float'] = Fn(lambda eng, st, args, kw, node: [(st, PY_FLOAT(to_str_term(args[0])))], 'py_float')
    B['py_float_ok'] = Fn(lambda eng, st, args, kw, node: [(st, PY_FLOAT_OK(to_str_term(args[0])))], 'py_float_ok')

    for _nm, _f in (('split_len', lambda a: SPLIT_LEN(to_str_term(a[0]))), ('split_part', lambda a: SPLIT_PART(to_str_term(a[0]), to_int(a[1]))),
                    ('py_strip', lambda a: PY_STRIP(to_str_term(a[0]))), ('py_int', lambda a: PY_INT(to_str_term(a[0]))),
                    ('py_int_ok', lambda a: PY_INT_OK(to_str_term(a[0]))), ('contains', lambda a: z3.Contains(to_str_term(a[0]), to_str_term(a[1])))):
        B[_nm] = Fn(lambda eng, st, args, kw, node, _f=_f: [(st, _f(args))], _nm)

    @reg('in_re')
    def _in_re(eng, st, args, kw, node):
        """in_re(s, NAME): s matches the pattern literal bound to NAME in the module under verification."""
        from . import regex as _rx
        import ast as _ast
        mod = None
        for fr in eng.frames:
            if fr.contract is not None and hasattr(fr.mod, 'assigns'):
                mod = fr.mod
        nd = mod.assigns[args[1]]
        lit = nd.args[0].value
        lit = lit if isinstance(lit, str) else lit.decode('latin-1')
        return one(st, z3.InRe(to_str_term(args[0]), _rx.match_lang(lit)))

    @reg('cls_is')
    def _cls_is(eng, st, args, kw, node):
        v = args[0]
        return one(st, isinstance(v, (Ref, Rec)) and v.cls == args[1])

    # ------------------------------------------------ time / datetime / re (trusted effect models: which exceptions can escape)
    def may_raise(eng, st, node, classes):
        for c in classes:
            st = eng.fork_exc(st, z3.Bool(uid('ok_' + c)), c, node)
            if st.dead:
                return None
        return st

    @reg('time.gmtime')
    def _gmtime(eng, st, args, kw, node):
        eng.trusted_used.add('time.gmtime(n): returns a 9-field struct_time or raises OverflowError / OSError (out of range for the platform); '
                             'datetime.datetime()/date()/strptime(): return a value or raise ValueError (OverflowError for integers beyond C long)')
        st = may_raise(eng, st, node, ['OverflowError', 'OSError'])
        if st is None:
            return []
        return one(st, Tup([z3.Int(uid('tm%d' % i)) for i in range(9)]))

    def _dt_ctor(cls):
        def f(eng, st, args, kw, node):
            st2 = may_raise(eng, st, node, ['ValueError', 'OverflowError'])
            if st2 is None:
                return []
            names = ['year', 'month', 'day', 'hour', 'minute', 'second', 'microsecond']
            fields = {n: (args[i] if i < len(args) else kw.get(n, 0)) for i, n in enumerate(names)}
            return one(st2, Rec(cls, fields))
        return f
    B['datetime.datetime'] = Fn(_dt_ctor('datetime'), 'datetime.datetime')
    B['datetime.date'] = Fn(_dt_ctor('date'), 'datetime.date')

    @reg('datetime.datetime.strptime')
    def _strptime(eng, st, args, kw, node):
        st2 = may_raise(eng, st, node, ['ValueError'])
        if st2 is None:
            return []
        return one(st2, Rec('datetime', {n: z3.Int(uid(n)) for n in ('year', 'month', 'day', 'hour', 'minute', 'second', 'microsecond')}))

    @reg('cls:datetime.time')
    def _dt_time(eng, st, args, kw, node):
        d = args[0]
        flds = st.heap[d.oid].fields if isinstance(d, Ref) else d.fields
        return one(st, Rec('time', {n: flds[n] for n in ('hour', 'minute', 'second', 'microsecond')}))

    class RegexVal:
        def __init__(self, pattern):
            self.pattern = pattern
    eng.RegexVal = RegexVal
    RE_GROUP = z3.Function('re_group', z3.StringSort(), z3.StringSort(), z3.IntSort(), z3.StringSort())

    @reg('re.compile')
    def _re_compile(eng, st, args, kw, node):
        if not isinstance(args[0], (str, bytes)):
            raise Unsupported('re.compile of a symbolic pattern')
        return one(st, RegexVal(args[0]))

    @reg('cls:Match.group')
    def _m_group(eng, st, args, kw, node):
        m, k = args[0], args[1] if len(args) > 1 else 0
        if isinstance(m, Ref):
            m = Rec('Match', st.heap[m.oid].fields)
        eng.trusted_used.add('re match groups are abstract strings re_group(pattern, subject, k); match success is the regular language of the pattern (pyvc/regex.py)')
        return one(st, RE_GROUP(z3.StringVal(m.fields['pattern']), to_str_term(m.fields['subject']), to_int(k)))

    @method('match')
    def _re_match(eng, st, args, kw, node):
        r, subj = args[0], args[1]
        if not isinstance(r, RegexVal):
            raise Unsupported('.match on %r' % (r,))
        from . import regex as _rx
        pat = r.pattern if isinstance(r.pattern, str) else r.pattern.decode('latin-1')
        if not is_strlike(subj):
            raise Unsupported('regex match on a non-string')
        ok = z3.InRe(to_str_term(subj), _rx.match_lang(pat))
        return one(st, Opt(z3.Not(ok), Rec('Match', {'pattern': pat, 'subject': subj})))

    @method('index')
    def _seq_index(eng, st, args, kw, node):
        v, x = as_view(args[0]), args[1]
        if not is_conc_int(v.length):
            raise Unsupported('.index on a symbolic sequence')
        eqs = [simp(v_eq(v.get(i), x)) for i in range(v.length)]
        st = eng.fork_exc(st, simp(b_or(*eqs)), 'ValueError', node)
        if st.dead:
            return []
        r = v.length - 1
        for i in range(v.length - 2, -1, -1):
            r = v_ite(eqs[i], i, r)
        return one(st, r)

    @reg('functools.partial')
    def _partial(eng, st, args, kw, node):
        return one(st, Opaque())

    @reg('map_has')
    def _map_has(eng, st, args, kw, node):
        from .contract import AbsMap
        return one(st, eng.absmap_funcs(AbsMap(args[0], None))(to_int(args[1])))

    @reg('map_get')
    def _map_get(eng, st, args, kw, node):
        from .kinds import _leaf
        return one(st, _leaf(z3.IntSort(), 'val_' + args[0], (args[1],)))

    @reg('map_rec')
    def _map_rec(eng, st, args, kw, node):
        """map_rec(name, key): the value (of the map's declared kind) the abstract map `name` of the contract under
        verification holds at `key` (same terms as subscripting the map in code)."""
        from .contract import AbsMap
        from .kinds import KRec as _KRec
        c = eng.frames[0].contract if eng.frames else None
        found = []
        def walk(x, depth=0):
            if isinstance(x, AbsMap) and x.name == args[0]:
                found.append(x)
            elif isinstance(x, _KRec) and depth < 4:
                for y in x.fields.values():
                    walk(y, depth + 1)
        if c is not None:
            for x in list(getattr(c, 'globals_', {}).values()) + list(getattr(c, 'params', {}).values()):
                walk(x)
        if not found:
            raise Unsupported('map_rec: no abstract map named %r in the contract under verification' % (args[0],))
        return one(st, eng.absmap_get(found[0], args[1]))

    @reg('map_field')
    def _map_field(eng, st, args, kw, node):
        from .kinds import _leaf
        return one(st, _leaf(z3.IntSort(), 'val_%s.%s' % (args[0], args[2]), (args[1],)))

    @reg('divmod')
    def _divmod(eng, st, args, kw, node):
        a, b = args
        st = eng.fork_exc(st, num_cmp('!=', b, 0), 'ZeroDivisionError', node)
        if st.dead:
            return []
        return one(st, Tup([num_binop('//', a, b, Pending()), num_binop('%', a, b, Pending())]))

    class SuperVal:
        def __init__(self, selfv, base):
            self.selfv = selfv
            self.base = base

    @reg('super')
    def _super(eng, st, args, kw, node):
        import ast as _ast
        if args:
            cls = args[0].name
            selfv = args[1]
        else:
            selfv = st.env.get('self')
            cls = eng.frame.qual.split('.')[0]
        ent = eng.find_class(cls)
        base = None
        if ent:
            for b in ent[1].bases:
                bn = _ast.unparse(b).split('.')[-1]
                if eng.find_class(bn, ent[0]):
                    base = bn
                    break
        return one(st, SuperVal(selfv, base))
    eng.SuperVal = SuperVal

    # ------------------------------------------------ slice objects (trusted model of CPython's slice.indices)
    def optparts(v):
        if v is None:
            return True, 0
        if isinstance(v, Opt):
            return v.isnone, v.val
        return False, v

    @reg('slice')
    def _slice(eng, st, args, kw, node):
        a = list(args)
        if len(a) == 1:
            a = [None, a[0], None]
        elif len(a) == 2:
            a = [a[0], a[1], None]
        return one(st, Rec('slice', {'start': a[0], 'stop': a[1], 'step': a[2]}))

    @reg('cls:slice.indices')
    def _slice_indices(eng, st, args, kw, node):
        sl, n = args
        f = sl.fields if isinstance(sl, Rec) else st.heap[sl.oid].fields
        sn, sv = optparts(f['start'])
        en, ev_ = optparts(f['stop'])
        tn, tv = optparts(f['step'])
        step = v_ite(simp(tn), 1, tv)
        st = eng.fork_exc(st, num_cmp('!=', step, 0), 'ValueError', node)
        if st.dead:
            return []
        st = eng.fork_exc(st, num_cmp('>=', n, 0), 'ValueError', node)
        if st.dead:
            return []
        neg = simp(num_cmp('<', step, 0))
        lower = v_ite(neg, -1, 0)
        upper = v_ite(neg, num_binop('-', n, 1, Pending()), n)

        def mx(a, b):
            return v_ite(simp(num_cmp('>', a, b)), a, b)

        def mn(a, b):
            return v_ite(simp(num_cmp('<', a, b)), a, b)

        def adj(isn, x, dflt):
            return v_ite(simp(isn), dflt,
                         v_ite(simp(num_cmp('<', x, 0)), mx(num_binop('+', x, n, Pending()), lower), mn(x, upper)))
        start = adj(sn, sv, v_ite(neg, upper, lower))
        stop = adj(en, ev_, v_ite(neg, lower, upper))
        eng.trusted_used.add('slice.indices(n): CPython adjustment rules (PySlice_AdjustIndices), modelled in pyvc/builtins.py')
        return one(st, Tup([simp(start), simp(stop), simp(step)]))

    # ------------------------------------------------ binary file objects (trusted model of io.BytesIO / BufferedReader)
    # KRec('BinaryIO', data=Bytes, pos=Int): read(n) returns data[pos:pos+n] truncated at EOF and advances,
    # seek(p) sets the position, tell() returns it.  rd_lo / rd_hi (optional fields) record the read footprint.
    def _fobj(st, ref):
        if not isinstance(ref, Ref):
            raise Unsupported('file method on %r' % (ref,))
        return st.heap[ref.oid].fields

    @reg('cls:BinaryIO.read')
    def _f_read(eng, st, args, kw, node):
        f = _fobj(st, args[0])
        data, pos = f['data'], f['pos']
        ln = data.length
        avail = v_ite(simp(num_cmp('>', ln, pos)), num_binop('-', ln, pos, Pending()), 0)
        if len(args) < 2 or args[1] is None:
            k = avail
        else:
            n = args[1]
            k = v_ite(simp(num_cmp('<', n, 0)), avail, v_ite(simp(num_cmp('<', n, avail)), n, avail))
        k = simp(k)
        res = v_slice(data, pos, num_binop('+', pos, k, Pending()))
        res = View(k, res.get, Byte, None, 'bytes')
        newpos = simp(num_binop('+', pos, k, Pending()))
        res.origin = (pos, newpos)        # which bytes of the file this value holds (used by whole-content predicates)
        if 'rd_lo' in f:
            f['rd_lo'] = v_ite(simp(b_and(num_cmp('>', k, 0), num_cmp('<', pos, f['rd_lo']))), pos, f['rd_lo'])
            f['rd_hi'] = v_ite(simp(b_and(num_cmp('>', k, 0), num_cmp('>', newpos, f['rd_hi']))), newpos, f['rd_hi'])
        f['pos'] = newpos
        eng.trusted_used.add('binary file object: read(n) = data[pos:pos+n] truncated at EOF, seek(p) (whence 0), tell(); modelled in pyvc/builtins.py')
        return one(st, res)

    @reg('cls:BinaryIO.seek')
    def _f_seek(eng, st, args, kw, node):
        f = _fobj(st, args[0])
        whence = args[2] if len(args) > 2 else kw.get('whence', 0)
        if not isinstance(whence, int):
            raise Unsupported('seek with a symbolic whence')
        if whence == 0:
            target = args[1]
        elif whence == 1:
            target = simp(num_binop('+', f['pos'], args[1], Pending()))       # os.SEEK_CUR
        elif whence == 2:
            target = simp(num_binop('+', f['data'].length, args[1], Pending()))    # os.SEEK_END
        else:
            raise Unsupported('seek whence %r' % (whence,))
        st = eng.fork_exc(st, num_cmp('>=', target, 0), 'ValueError', node)
        if st.dead:
            return []
        _fobj(st, args[0])['pos'] = target
        return one(st, target)

    @reg('cls:BinaryIO.write')
    def _f_write(eng, st, args, kw, node):
        f = _fobj(st, args[0])
        b = as_view(args[1])
        data, pos = f['data'], f['pos']
        # bytes beyond EOF are not modelled: writing happens at or before the end of the data
        st = eng.fork_exc(st, num_cmp('<=', pos, data.length), 'ValueError', node)
        if st.dead:
            return []
        f = _fobj(st, args[0])
        end = simp(num_binop('+', pos, b.length, Pending()))
        nd = v_concat(v_concat(v_slice(data, 0, pos), b), v_slice(data, end, None))
        nd.ekind = Byte
        nd.tag = 'bytes'
        f['data'] = nd
        f['pos'] = end
        return one(st, b.length)

    @reg('cls:TextIO.write')
    def _t_write(eng, st, args, kw, node):
        f = _fobj(st, args[0])
        if 'writes' in f:
            f['writes'] = simp(num_binop('+', f['writes'], 1, Pending()))
        if 'log' in f:
            # KRec('TextIO', log=KView(Str)): the stream is the sequence of the strings written to it, in order
            v = args[1]
            if isinstance(v, str):
                v = z3.StringVal(v)
            if not (is_z3(v) and z3.is_string(v)):
                v = z3.String(uid('text'))       # a text the model knows nothing about (str() of an untracked value)
            eng.trusted_used.add('text stream: a TextIO object is the sequence of the strings written to it, in order (write only); modelled in pyvc/builtins.py')
            nl = v_append(f['log'], v)
            nl.ekind = f['log'].ekind
            f['log'] = nl
        return one(st, 0)

    @reg('cls:BinaryIO.tell')
    def _f_tell(eng, st, args, kw, node):
        return one(st, _fobj(st, args[0])['pos'])

    # ------------------------------------------------ text decoded from file bytes, judged as a whole by an uninterpreted predicate
    class TextVal:
        """bytes.decode('ascii') of file bytes [lo, hi) (or of an unknown origin): only its origin is tracked, so that a
        trusted "does this text parse" callee can be stated as an uninterpreted predicate of WHICH bytes it was given."""
        def __init__(self, origin):
            self.origin = origin

        def __repr__(self):
            return 'TextVal(%r)' % (self.origin,)
    eng.TextVal = TextVal
    _PREDS = {}

    def content_pred(name, lo, hi):
        f = _PREDS.get(name)
        if f is None:
            f = _PREDS[name] = z3.Function('content_' + name, z3.IntSort(), z3.IntSort(), z3.BoolSort())
        return f(to_int(lo), to_int(hi))

    @method('decode')
    def _decode(eng, st, args, kw, node):
        v = args[0]
        if not (isinstance(v, View) and v.tag == 'bytes') or len(args) < 2 or args[1] != 'ascii':
            raise Unsupported('decode of %r' % (v,))
        # UnicodeDecodeError iff some byte is >= 128
        i0 = z3.Int(uid('nonascii'))
        bad = st.copy()
        bad.assume(z3.And(i0 >= 0, i0 < to_int(v.length), to_int(v.get(i0)) >= 128))
        if not bad.dead:
            eng.throw(bad, 'UnicodeDecodeError', node)
        i = z3.Int(uid('asc'))
        el = v.get(i)
        st.assume(z3.ForAll([i], z3.Implies(z3.And(i >= 0, i < to_int(v.length)), to_int(el) < 128), patterns=[el]))
        eng.trusted_used.add("bytes.decode('ascii'): UnicodeDecodeError iff a byte is >= 128; the text is tracked only by the file range it came from")
        return one(st, TextVal(getattr(v, 'origin', None)))

    @reg('io.StringIO')
    def _stringio(eng, st, args, kw, node):
        if args and isinstance(args[0], TextVal):
            return one(st, args[0])
        raise Unsupported('io.StringIO of %r' % (args[:1],))

    _MARK = z3.Function('inst_mark', z3.IntSort(), z3.IntSort())

    @reg('mark')
    def _mark(eng, st, args, kw, node):
        # an uninterpreted marker that occurs nowhere else: a quantifier whose only solver pattern is mark(x) is never
        # instantiated by z3's e-matching (no matching loops); its instances come from the deterministic pre-instantiation
        return one(st, _MARK(to_int(args[0])))

    @reg('text_pred')
    def _text_pred(eng, st, args, kw, node):
        # text_pred(name, text): the uninterpreted predicate `name` of the file bytes the text was decoded from
        v = args[1]
        if isinstance(v, TextVal) and v.origin is not None:
            return one(st, content_pred(args[0], v.origin[0], v.origin[1]))
        return one(st, z3.Bool(uid('text_pred_unknown')))

    @reg('file_pred')
    def _file_pred(eng, st, args, kw, node):
        return one(st, content_pred(args[0], args[1], args[2]))

    @reg('time.perf_counter')
    def _perf_counter(eng, st, args, kw, node):
        return one(st, z3.Real(uid('perf_counter')))

    @reg('os.path.getsize')
    def _getsize(eng, st, args, kw, node):
        eff = getattr(eng, 'effect', None)
        if not (eff is not None and 'os.path.getsize' in eff.no_raise_calls):
            eng.throw(st.copy(), 'OSError', node)
        else:
            eng.assumptions_used.add('%s: call of os.path.getsize is assumed to raise nothing' % eff.func)
        n = z3.Int(uid('getsize'))
        st.assume(n >= 0)
        return one(st, n)

    @reg('copy.copy')
    def _copy(eng, st, args, kw, node):
        v = args[0]
        if isinstance(v, Ref):
            o = st.heap[v.oid]
            return one(st, st.new_obj(o.cls, dict(o.fields)))
        return one(st, v)

    # ------------------------------------------------ struct (trusted: big/little-endian integer packing)
    import struct as _struct
    import re as _re
    IEEE32 = z3.Function('ieee32', z3.IntSort(), z3.RealSort())
    IEEE64 = z3.Function('ieee64', z3.IntSort(), z3.RealSort())

    def parse_fmt(fmt):
        order = '>'
        if fmt and fmt[0] in '<>!=@':
            order = '>' if fmt[0] in '>!' else '<' if fmt[0] == '<' else fmt[0]
            fmt = fmt[1:]
        items = []
        for cnt, code in _re.findall(r'(\d*)([a-zA-Z?])', fmt):
            n = int(cnt) if cnt else 1
            if code == 's':
                items.append(('s', n))
            elif code == 'x':
                items.append(('x', n))
            else:
                items += [(code, 1)] * n
        return order, items

    SIZES = {'B': 1, 'b': 1, 'c': 1, 'H': 2, 'h': 2, 'I': 4, 'i': 4, 'L': 4, 'l': 4, 'Q': 8, 'q': 8, 'f': 4, 'd': 8, '?': 1}

    def fmt_size(fmt):
        order, items = parse_fmt(fmt)
        return sum(n if c in 'sx' else SIZES[c] for c, n in items)

    def do_unpack(eng, st, fmt, by, offset, node, exact=True):
        if order_native(fmt):
            raise Unsupported('native struct alignment %r' % fmt)
        order, items = parse_fmt(fmt)
        size = fmt_size(fmt)
        bv = as_view(by)
        if exact:
            okc = num_cmp('==', bv.length, size)
        else:
            okc = num_cmp('>=', num_binop('-', bv.length, offset, Pending()), size)
        st = eng.fork_exc(st, okc, 'struct.error', node)
        if st.dead:
            return []
        eng.trusted_used.add('struct.unpack: big/little-endian two\'s-complement integers as documented (floats: uninterpreted ieee32/ieee64 of the bytes)')
        out = []
        pos = offset
        for code, n in items:
            if code == 'x':
                pos = num_binop('+', pos, n, Pending())
                continue
            if code == 's':
                out.append(v_slice(bv, pos, num_binop('+', pos, n, Pending())))
                pos = num_binop('+', pos, n, Pending())
                continue
            k = SIZES[code]
            bs = []
            for j in range(k):
                el = bv.get(simp(num_binop('+', pos, j, Pending())))
                if is_z3(el) and not eng.pure:
                    st.assume(z3.And(el >= 0, el <= 255))
                bs.append(el)
            if order == '<':
                bs = bs[::-1]
            val = 0
            for b in bs:
                val = num_binop('+', num_binop('*', val, 256, Pending()), b, Pending())
            if code in 'bhilq':
                lim = 1 << (8 * k - 1)
                val = v_ite(simp(num_cmp('>=', val, lim)), num_binop('-', val, 2 * lim, Pending()), val)
            elif code == 'f':
                val = IEEE32(to_int(val))
            elif code == 'd':
                val = IEEE64(to_int(val))
            elif code == 'c':
                val = conc_seq_view([bs[0]], Byte, 'bytes')
            elif code == '?':
                val = simp(num_cmp('!=', val, 0))
            elif code in 'BHILQ' and is_z3(val):
                ops.set_bits(val, 8 * k, 0)
            out.append(val)
            pos = num_binop('+', pos, k, Pending())
        return [(st, Tup(out))]

    def order_native(fmt):
        return not fmt or fmt[0] not in '<>!'

    @reg('struct.unpack')
    def _unpack(eng, st, args, kw, node):
        fmt, by = args
        if not isinstance(fmt, str):
            raise Unsupported('symbolic struct format')
        return do_unpack(eng, st, fmt, by, 0, node)

    @reg('struct.unpack_from')
    def _unpack_from(eng, st, args, kw, node):
        fmt, by = args[0], args[1]
        off = args[2] if len(args) > 2 else kw.get('offset', 0)
        return do_unpack(eng, st, fmt, by, off, node, exact=False)

    @reg('struct.calcsize')
    def _calcsize(eng, st, args, kw, node):
        return one(st, fmt_size(args[0]))

    @reg('struct.Struct')
    def _Struct(eng, st, args, kw, node):
        return one(st, StructVal(args[0]))

    @reg('struct.pack')
    def _pack(eng, st, args, kw, node):
        return do_pack(eng, st, args[0], args[1:], node)

    def do_pack(eng, st, fmt, vals, node):
        if order_native(fmt):
            raise Unsupported('native struct alignment %r' % fmt)
        order, items = parse_fmt(fmt)
        eng.trusted_used.add('struct.pack: big/little-endian two\'s-complement integers as documented')
        out = []
        vi = 0
        for code, n in items:
            if code == 'x':
                out += [0] * n
                continue
            v = vals[vi]
            vi += 1
            if isinstance(v, Opt):
                st = eng.fork_exc(st, b_not(v.isnone), 'struct.error', node)
                if st.dead:
                    return []
                v = v.val
            if code == 's':
                vv = as_view(v)
                for j in range(n):
                    out.append(v_ite(simp(num_cmp('<', j, vv.length)), vv.get(j), 0))
                continue
            k = SIZES[code]
            if code in 'fd':
                raise Unsupported('struct.pack of floats')
            if code in 'bhilq':
                lo, hi = -(1 << (8 * k - 1)), (1 << (8 * k - 1)) - 1
            else:
                lo, hi = 0, (1 << (8 * k)) - 1
            st = eng.fork_exc(st, b_and(num_cmp('>=', v, lo), num_cmp('<=', v, hi)), 'struct.error', node)
            if st.dead:
                return []
            u = v_ite(simp(num_cmp('<', v, 0)), num_binop('+', v, 1 << (8 * k), Pending()), v)
            bs = []
            for j in range(k):
                sh = 8 * (k - 1 - j)
                bs.append(num_binop('%', num_binop('//', u, 1 << sh, Pending()), 256, Pending()))
            if order == '<':
                bs = bs[::-1]
            out += bs
        return [(st, conc_seq_view(out, Byte, 'bytes'))]

    @method('unpack')
    def _m_unpack(eng, st, args, kw, node):
        sv = args[0]
        if isinstance(sv, StructVal):
            return do_unpack(eng, st, sv.fmt, args[1], 0, node)
        raise Unsupported('.unpack on %r' % (sv,))

    @method('unpack_from')
    def _m_unpack_from(eng, st, args, kw, node):
        sv = args[0]
        off = args[2] if len(args) > 2 else kw.get('offset', 0)
        return do_unpack(eng, st, sv.fmt, args[1], off, node, exact=False)

    @method('pack')
    def _m_pack(eng, st, args, kw, node):
        return do_pack(eng, st, args[0].fmt, args[1:], node)

    @method('size')
    def _m_size(eng, st, args, kw, node):
        raise Unsupported('size as method')

    # ------------------------------------------------ math
    @reg('math.ldexp')
    def _ldexp(eng, st, args, kw, node):
        m, e = args
        if isinstance(m, (int, fractions.Fraction)) and is_conc_int(e):
            return one(st, fractions.Fraction(m) * (fractions.Fraction(2) ** e))
        eng.assumptions_used.add('math.ldexp(m, e) = m * 2**e over the reals (binary64 rounding/overflow not modelled)')
        return one(st, to_real(m) * ops.pow2_real(e))

    @reg('math.frexp')
    def _frexp(eng, st, args, kw, node):
        v = to_real(args[0])
        m = z3.Real(uid('frexp_m'))
        e = z3.Int(uid('frexp_e'))
        # v == 0 -> (0.0, 0); otherwise 0.5 <= |m| < 1 and v == m * 2**e (exact for finite v)
        st.assume(z3.If(v == 0, z3.And(m == 0, e == 0),
                        z3.And(z3.Or(z3.And(m >= z3.Q(1, 2), m < 1), z3.And(m <= -z3.Q(1, 2), m > -1)),
                               v == m * ops.pow2_real(e))))
        # consequences of the line above, stated linearly in v and 2**e so that the solver need not multiply
        p2 = ops.pow2_real(e)
        st.assume(z3.Implies(v > 0, z3.And(p2 / 2 <= v, v < p2)))
        st.assume(z3.Implies(v < 0, z3.And(-p2 < v, v <= -p2 / 2)))
        # ground facts of arithmetic about 2**e for THIS exponent (the step axioms give them only through long instantiation
        # chains): positivity, the 23 and 24 bit scalings used by the single precision codes, bounds at the exponents that
        # delimit their ranges
        st.assume(p2 > 0)
        for sh in (23, 24):
            q = ops.pow2_real(e - sh)
            st.assume(z3.And(q > 0, p2 == (2 ** sh) * q))
        for c in (-152, -151, -150, -130, -129, -128, -127, -1, 0, 1, 126, 127, 128):
            pc_ = z3.Q(2 ** c, 1) if c >= 0 else z3.Q(1, 2 ** (-c))
            st.assume(z3.And(z3.Implies(e <= c, p2 <= pc_), z3.Implies(e >= c, p2 >= pc_)))
        eng.assumptions_used.add('math.frexp(v) = (m, e) with v = m * 2**e, 0.5 <= |m| < 1 (or (0, 0)), exact for finite v; ground facts of arithmetic about 2**e are stated with it (2**e > 0, 2**e = 2**23 * 2**(e-23) = 2**24 * 2**(e-24), bounds against 2**c at thirteen fixed exponents c)')
        return one(st, Tup([m, e]))

    @reg('math.floor')
    def _mfloor(eng, st, args, kw, node):
        v = args[0]
        if isinstance(v, fractions.Fraction):
            return one(st, v.numerator // v.denominator)
        if is_intlike(v):
            return one(st, v)
        return one(st, z3.ToInt(to_real(v)))

    @reg('math.ceil')
    def _mceil(eng, st, args, kw, node):
        v = args[0]
        if is_intlike(v):
            return one(st, v)
        r = to_real(v)
        return one(st, -z3.ToInt(-r))

    @reg('math.fabs')
    def _fabs(eng, st, args, kw, node):
        r = to_real(args[0])
        return one(st, z3.If(r >= 0, r, -r))

    @reg('math.isclose')
    def _isclose(eng, st, args, kw, node):
        a, b = to_real(args[0]), to_real(args[1])
        rel = kw.get('rel_tol', fractions.Fraction(1, 10 ** 9))
        abs_tol = kw.get('abs_tol', 0)

        def ab(x):
            return z3.If(x >= 0, x, -x)
        mx = z3.If(ab(a) >= ab(b), ab(a), ab(b))
        lim = to_real(rel) * mx
        at = to_real(abs_tol)
        lim = z3.If(lim >= at, lim, at)
        eng.assumptions_used.add('math.isclose(a, b, rel_tol=r): |a-b| <= max(r*max(|a|,|b|), abs_tol) over the reals')
        return one(st, ab(a - b) <= lim)

    LOG10 = z3.Function('log10', z3.RealSort(), z3.RealSort())
    eng.LOG10 = LOG10

    @reg('math.log10')
    def _log10(eng, st, args, kw, node):
        v = to_real(args[0])
        st = eng.fork_exc(st, v > 0, 'ValueError', node)
        if st.dead:
            return []
        eng.assumptions_used.add('math.log10 is an uninterpreted real function with the axioms stated in the contract')
        return one(st, LOG10(v))

    @reg('log10')
    def _slog10(eng, st, args, kw, node):
        return one(st, LOG10(to_real(args[0])))

    # ------------------------------------------------ formatted values: format(value, spec) as an uninterpreted function per spec skeleton
    _FMT = {}

    def fmt_app(skeleton, value, embedded):
        """The text of f'{value:<skeleton>}' where each {} of the skeleton is filled by an embedded value: an application of an
        uninterpreted function named after the skeleton (which characters CPython prints is not modelled; that equal values and
        equal embedded parts under the same skeleton print the same text is)"""
        def term(x):
            if isinstance(x, bool):
                raise Unsupported('formatted bool')
            if isinstance(x, str):
                return z3.StringVal(x)
            if is_z3(x) and z3.is_string(x):
                return x
            if isinstance(x, int) or is_intlike(x):
                return z3.ToReal(to_int(x)) if False else to_int(x)
            return to_real(x)
        v = term(value)
        if z3.is_int(v):
            v = z3.ToReal(v)        # an int and the equal float print the same under 'f' / 'e' / 'g' skeletons; 'd' is its own skeleton
        es = [term(e) for e in embedded]
        key = (skeleton, tuple(str(t.sort()) for t in [v] + es))
        if key not in _FMT:
            _FMT[key] = z3.Function('pyfmt<%s>%d' % (skeleton, len(_FMT)), *([t.sort() for t in [v] + es] + [z3.StringSort()]))
        return _FMT[key](v, *es)
    eng.fmt_app = fmt_app

    @reg('pyfmt')
    def _pyfmt(eng, st, args, kw, node):
        if not isinstance(args[0], str):
            raise Unsupported('pyfmt(skeleton, value, ...): the skeleton is a literal')
        return one(st, fmt_app(args[0], args[1], list(args[2:])))

    _UF = {}

    def _uf(kind, args):
        name = args[0]
        if not isinstance(name, str):
            raise Unsupported('uf_*(name, ...): the name is a literal')
        ts = []
        for x in args[1:]:
            if isinstance(x, str):
                ts.append(z3.StringVal(x))
            elif is_z3(x) and z3.is_string(x):
                ts.append(x)
            elif isinstance(x, bool) or (is_z3(x) and z3.is_bool(x)):
                ts.append(to_bool_term(x))
            elif isinstance(x, int) or is_intlike(x):
                ts.append(to_int(x))
            else:
                ts.append(to_real(x))
        rs = {'real': z3.RealSort(), 'int': z3.IntSort(), 'str': z3.StringSort(), 'bool': z3.BoolSort()}[kind]
        key = (name, kind, tuple(str(t.sort()) for t in ts))
        if key not in _UF:
            _UF[key] = z3.Function('uf<%s>%d' % (name, len(_UF)), *([t.sort() for t in ts] + [rs]))
        return _UF[key](*ts)

    # uninterpreted functions for contracts: uf_real('reduce', row, method) is SOME real number determined by its arguments
    for _k in ('real', 'int', 'str', 'bool'):
        def _mk(kind):
            def f(eng, st, args, kw, node):
                return one(st, _uf(kind, args))
            return f
        reg('uf_' + _k)(_mk(_k))

    _NP_INT = z3.Function('np_is_integer_dtype', z3.IntSort(), z3.BoolSort())
    _NP_FLT = z3.Function('np_is_floating_dtype', z3.IntSort(), z3.BoolSort())
    B['np.integer'] = B['numpy.integer'] = 'np.integer'
    B['np.floating'] = B['numpy.floating'] = 'np.floating'

    @reg('np.issubdtype')
    @reg('numpy.issubdtype')
    def _issubdtype(eng, st, args, kw, node):
        eng.assumptions_used.add('np.issubdtype(dtype, np.integer / np.floating): uninterpreted predicates of the dtype; an array is abstracted to the sequence of its rows and its dtype')
        if args[1] == 'np.integer':
            return one(st, _NP_INT(to_int(args[0])))
        if args[1] == 'np.floating':
            return one(st, _NP_FLT(to_int(args[0])))
        raise Unsupported('np.issubdtype(_, %r)' % (args[1],))

    @reg('np_is_integer')
    def _np_int(eng, st, args, kw, node):
        return one(st, _NP_INT(to_int(args[0])))

    @reg('np_is_floating')
    def _np_flt(eng, st, args, kw, node):
        return one(st, _NP_FLT(to_int(args[0])))

    B['os.SEEK_SET'], B['os.SEEK_CUR'], B['os.SEEK_END'] = 0, 1, 2
    B['np.float64'] = B['numpy.float64'] = 'np.float64'
    B['sys.float_info.epsilon'] = fractions.Fraction(1, 2 ** 52)     # binary64 machine epsilon

    # ------------------------------------------------ sequence methods

    @method('indices')
    def _indices(eng, st, args, kw, node):
        raise Unsupported('slice.indices on %r' % (args[0],))

    @method('get')
    def _get(eng, st, args, kw, node):
        d = args[0]
        if not isinstance(d, DictVal):
            raise Unsupported('.get on %r' % (d,))
        k = args[1]
        default = args[2] if len(args) > 2 else None
        keys = list(d.d.keys())
        r = default
        for kk in reversed(keys):
            r = v_ite(simp(v_eq(k, eng.lift_key(kk))), d.d[kk], r)
        return one(st, r)

    @method('keys')
    def _keys(eng, st, args, kw, node):
        d = args[0]
        return one(st, conc_seq_view([eng.lift_key(k) for k in d.d], None, 'list'))

    @method('values')
    def _values(eng, st, args, kw, node):
        d = args[0]
        return one(st, conc_seq_view(list(d.d.values()), None, 'list'))

    @method('items')
    def _items(eng, st, args, kw, node):
        d = args[0]
        return one(st, conc_seq_view([Tup([eng.lift_key(k), v]) for k, v in d.d.items()], None, 'list'))

    def mutating(name):
        """list methods that mutate the receiver: evaluated by the engine through the receiver lvalue."""
        def deco(f):
            B['mut:' + name] = f
            return f
        return deco

    @mutating('append')
    def _append(recv, args):
        v = as_view(recv)
        nv = v_append(v, args[0])
        nv.ekind = v.ekind
        nv.tag = v.tag
        return nv, None

    @mutating('extend')
    def _extend(recv, args):
        v = as_view(recv)
        nv = v_concat(v, as_view(args[0]) if not isinstance(args[0], View) else args[0])
        nv.ekind = v.ekind
        nv.tag = v.tag
        return nv, None

    @mutating('clear')
    def _clear(recv, args):
        v = as_view(recv)
        return conc_seq_view([], v.ekind, v.tag), None

    @method('startswith')
    def _startswith(eng, st, args, kw, node):
        s, p = args[0], args[1]
        if is_strlike(s):
            if isinstance(s, str) and isinstance(p, str):
                return one(st, s.startswith(p))
            return one(st, z3.PrefixOf(to_str_term(p), to_str_term(s)))
        sv, pv = as_view(s), as_view(p)
        if not is_conc_int(pv.length):
            raise Unsupported('startswith symbolic prefix')
        conj = [num_cmp('>=', sv.length, pv.length)] + [v_eq(sv.get(i), pv.get(i)) for i in range(pv.length)]
        return one(st, simp(b_and(*conj)))

    @method('endswith')
    def _endswith(eng, st, args, kw, node):
        s, p = args[0], args[1]
        if is_strlike(s):
            if isinstance(s, str) and isinstance(p, str):
                return one(st, s.endswith(p))
            return one(st, z3.SuffixOf(to_str_term(p), to_str_term(s)))
        raise Unsupported('endswith on bytes')

    @method('format')
    def _format(eng, st, args, kw, node):
        return one(st, z3.String(uid('fmt')))

    @method('to_bytes')
    def _to_bytes(eng, st, args, kw, node):
        raise Unsupported('int.to_bytes')
