"""Sidecar contracts: data classes only.  Expressions are Python source strings, evaluated by the
symbolic executor in spec mode (pure: and/or/if-expressions build formulas, no forks)."""
from .kinds import *


class Loop:
    def __init__(self, anchor, invariants=(), decreases=None, index=None, seq=None, kinds=None, unroll=False,
                 havoc_extra=()):
        self.anchor = anchor              # source text of the loop header (ast.unparse form), must match
        self.invariants = list(invariants)
        self.decreases = decreases
        self.index = index                # name of the ghost iteration counter of a for loop
        self.seq = seq                    # name under which the iterated sequence is visible to invariants
        self.kinds = kinds or {}          # kinds of havocked variables when not inferable
        self.unroll = unroll              # concrete iteration space: unroll instead of cutting
        self.havoc_extra = list(havoc_extra)   # extra 'obj.field' paths to havoc (effects of callees)


class Contract:
    def __init__(self, file, func, params=None, requires=(), ensures=(), raises=None, may_raise=None,
                 modifies=(), returns=None, yields=None, loops=(), ghost=None, inline=False, trusted=False,
                 canaries=(), note='', variants=None, lemmas=(), cls_fields=None, eager_generator=True,
                 name=None, prop=None, allow_exc=(), ensures_exc=None, timeout=None, assume=()):
        self.file = file
        self.func = func
        self.params = params or {}
        self.requires = list(requires)
        self.ensures = list(ensures)
        self.raises = dict(raises or {})          # exception class name -> condition (raised iff condition)
        self.may_raise = dict(may_raise or {})    # exception class name -> condition (raised only if condition)
        self.modifies = list(modifies)
        self.returns = returns
        self.yields = yields
        self.loops = list(loops)
        self.ghost = dict(ghost or {})
        self.inline = inline
        self.trusted = trusted
        self.canaries = list(canaries)
        self.note = note
        self.name = name or func
        self.prop = prop
        self.ensures_exc = dict(ensures_exc or {})   # exception class -> list of postconditions on raise
        self.timeout = timeout
        self.assume = list(assume)     # extra axioms (strings) assumed at entry: recorded as assumptions

    @property
    def key(self):
        return (self.file, self.func)


class Registry:
    def __init__(self):
        self.contracts = {}      # (file, func) -> Contract used at call sites
        self.verify = []         # contracts to verify (may contain several variants per function)
        self.spec_modules = []   # python modules whose functions are spec functions
        self.spec_funcs = {}

    def add(self, c, verify=True, callable_=True):
        if callable_:
            self.contracts[c.key] = c
        if verify and not c.trusted and not c.inline:
            self.verify.append(c)
        return c

    def add_spec_source(self, text):
        import ast
        tree = ast.parse(text)
        for n in tree.body:
            if isinstance(n, ast.FunctionDef):
                self.spec_funcs[n.name] = n
