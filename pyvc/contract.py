"""Sidecar contracts: data classes only.  Expressions are Python source strings, evaluated by the
symbolic executor in spec mode (pure: and/or/if-expressions build formulas, no forks)."""
from .kinds import *


class Loop:
    def __init__(self, anchor, invariants=(), decreases=None, index=None, seq=None, kinds=None, unroll=False,
                 havoc_extra=()):
        self.anchor = anchor              # source text of the loop header (ast.unparse form), must match
        self.invariants = list(invariants)
        self.decreases = decreases
        self.index = index                # name of the ghost iteration counter of a for loop
        self.seq = seq                    # name under which the iterated sequence is visible to invariants
        self.kinds = kinds or {}          # kinds of havocked variables when not inferable
        self.unroll = unroll              # concrete iteration space: unroll instead of cutting
        self.havoc_extra = list(havoc_extra)   # extra 'obj.field' paths to havoc (effects of callees)


class Contract:
    def __init__(self, file, func, params=None, requires=(), ensures=(), raises=None, may_raise=None,
                 modifies=(), returns=None, yields=None, loops=(), ghost=None, inline=False, trusted=False,
                 canaries=(), note='', variants=None, lemmas=(), cls_fields=None, eager_generator=True,
                 name=None, prop=None, allow_exc=(), ensures_exc=None, timeout=None, assume=(),
                 ghost_post=None, exit_lemmas=(), domains=None, crosscheck=True, inline_at_calls=False, native_gen=None, exit_hints=(), ghost_init=None, globals_=None, materialise_ghost=(),
                 unknown_calls=None, no_raise_calls=()):
        self.file = file
        self.func = func
        self.params = params or {}
        self.requires = list(requires)
        self.ensures = list(ensures)
        self.raises = dict(raises or {})          # exception class name -> condition (raised iff condition)
        self.may_raise = dict(may_raise or {})    # exception class name -> condition (raised only if condition)
        self.modifies = list(modifies)
        self.returns = returns
        self.yields = yields
        self.loops = list(loops)
        self.ghost = dict(ghost or {})
        self.inline = inline
        self.trusted = trusted
        self.canaries = list(canaries)
        self.note = note
        self.name = name or func
        self.prop = prop
        self.ensures_exc = dict(ensures_exc or {})   # exception class -> list of postconditions on raise
        self.timeout = timeout
        self.assume = list(assume)
        self.ghost_post = dict(ghost_post or {})   # ghost name -> expression giving its value after the call
        self.exit_lemmas = list(exit_lemmas)       # induction lemmas proved at normal exit, then assumed
        self.domains = domains
        self.crosscheck = crosscheck
        self.inline_at_calls = inline_at_calls   # verified against its contract, but call sites execute the real body
        self.native_gen = native_gen
        self.globals_ = dict(globals_ or {})     # module-level names replaced by abstract values (AbsMap)
        self.ghost_init = dict(ghost_init or {})   # ghost locals: name -> initial value expression
        self.materialise_ghost = list(materialise_ghost)
        self.exit_hints = list(exit_hints)   # terms (local-state expressions) offered to e-matching at exit; no logical content
        # exception-effect contracts: unknown_calls='may-raise' makes every operation the model does not track (calls of
        # functions without contract, operations on untracked values, unsupported constructs) return an untracked value
        # and possibly raise Exception; no_raise_calls lists callee texts assumed total (recorded as assumptions)
        self.solver_order = None      # optional: portfolio stages to try first for this contract's VCs
        self.unknown_calls = unknown_calls
        self.no_raise_calls = list(no_raise_calls)
        self.lemmas = list(lemmas)     # extra axioms (strings) assumed at entry: recorded as assumptions

    @property
    def key(self):
        return (self.file, self.func)


class Registry:
    def __init__(self):
        self.contracts = {}      # (file, func) -> Contract used at call sites
        self.verify = []         # contracts to verify (may contain several variants per function)
        self.lemmas = []
        self.spec_modules = []   # python modules whose functions are spec functions
        self.spec_funcs = {}
        self.alternatives = {}   # (file, func) -> contracts chosen at a call site when their `applies` says so

    def add(self, c, verify=True, callable_=True):
        if getattr(self, 'verify_override', None) is not None:
            verify = verify and self.verify_override
        if callable_:
            self.contracts[c.key] = c
        if verify and not c.trusted and not c.inline:
            if any(x.name == c.name for x in self.verify):
                raise ValueError('duplicate contract name %s' % c.name)
            self.verify.append(c)
        return c

    def add_lemma(self, lem):
        self.lemmas.append(lem)
        return lem

    def add_alternative(self, c, applies):
        c.applies = applies
        self.alternatives.setdefault(c.key, []).append(c)
        return c

    def add_spec_source(self, text):
        import ast
        tree = ast.parse(text)
        for n in tree.body:
            if isinstance(n, ast.FunctionDef):
                self.spec_funcs[n.name] = n


class Induction:
    """Lemma by induction on an integer: claim(lo) and (lo <= n < hi and claim(n) -> claim(n+1)) are
    obligations; then forall n in [lo, hi]: claim(n) is available as a hypothesis."""

    def __init__(self, var, lo, hi, claim, name='lemma'):
        self.var, self.lo, self.hi, self.claim, self.name = var, lo, hi, claim, name


class Lemma:
    """A closed statement over spec functions: forall vars satisfying `requires`, `ensures` hold.
    Used to derive the property-level consequences (round trip, transitivity) from the function contracts."""

    def __init__(self, name, params, requires=(), ensures=(), note=''):
        self.name, self.params, self.requires, self.ensures, self.note = name, params, list(requires), list(ensures), note
        self.file, self.func = '<lemma>', name
        self.timeout = None


class AbsMap:
    """An abstract finite map (module-level dict the model does not expand): uninterpreted domain predicate and
    value function over integer keys."""

    def __init__(self, name, val_kind):
        self.name, self.val_kind = name, val_kind
