"""Kinds (type descriptors) and symbolic values of the pyvc verifier.

A *value* is one of
  - a Python constant: int, bool, float (lifted to an exact rational), str, bytes, None
  - a z3 expression of sort Int / Real / Bool / String
  - Tup(items)            immutable tuple of values
  - View(length, get)     list / bytes / bytearray / range / generator output:
                          a length term and a Python closure index-term -> value
  - Opt(isnone, val)      a value that may be None
  - Rec(cls, fields)      immutable record (an object stored inside a View)
  - Ref(oid)              reference to a mutable heap object of the State
  - Fn(...)               callable (spec lambda, bound method, builtin)
"""
import fractions
import itertools
import z3

_counter = itertools.count()


def uid(prefix='t'):
    return '%s!%d' % (prefix, next(_counter))


class Unsupported(Exception):
    """The translator met a construct outside its subset: exit 3 for that function."""


class ContractError(Exception):
    """A contract cannot be attached to the code it names (undecided, exit 2)."""


# ---------------------------------------------------------------- kinds
class Kind:
    def __repr__(self):
        return self.__class__.__name__


class KInt(Kind):
    pass


class KByte(KInt):
    """An int known to be in 0..255 (element of bytes / bytearray)."""


class KReal(Kind):
    pass


class KBool(Kind):
    pass


class KStr(Kind):
    pass


class KNone(Kind):
    pass


class KOpt(Kind):
    def __init__(self, k):
        self.k = k

    def __repr__(self):
        return 'Opt(%r)' % (self.k,)


class KTup(Kind):
    def __init__(self, *ks):
        self.ks = ks

    def __repr__(self):
        return 'Tup%r' % (self.ks,)


class KView(Kind):
    def __init__(self, k, mutable=True):
        self.k = k

    def __repr__(self):
        return 'View(%r)' % (self.k,)


class KRec(Kind):
    """Object of class `cls` with the given fields.  As a parameter kind it makes a heap object."""

    def __init__(self, cls, **fields):
        self.cls = cls
        self.fields = fields

    def __repr__(self):
        return 'Rec(%s)' % self.cls


class KUnint(Kind):
    """Value of an uninterpreted sort (e.g. identifiers compared only for equality)."""

    def __init__(self, name):
        self.name = name
        self.sort = z3.DeclareSort(name)


Int, Byte, Real, Bool, Str, NoneK = KInt(), KByte(), KReal(), KBool(), KStr(), KNone()
Bytes = KView(Byte)


class KOpaque(Kind):
    """A value the model does not track at all (exception-effect contracts): every operation on it may raise."""
    def __repr__(self):
        return 'Untracked'


Untracked = KOpaque()


# ---------------------------------------------------------------- values
class Tup:
    def __init__(self, items):
        self.items = tuple(items)

    def __repr__(self):
        return 'Tup%r' % (self.items,)


class Opt:
    def __init__(self, isnone, val):
        self.isnone = isnone
        self.val = val

    def __repr__(self):
        return 'Opt(%r,%r)' % (self.isnone, self.val)


class Rec:
    def __init__(self, cls, fields):
        self.cls = cls
        self.fields = dict(fields)

    def __repr__(self):
        return 'Rec(%s,%r)' % (self.cls, self.fields)


class Ref:
    def __init__(self, oid, cls):
        self.oid = oid
        self.cls = cls

    def __repr__(self):
        return 'Ref(%s#%s)' % (self.cls, self.oid)


class View:
    """Sequence value.  `length` is an int or z3 Int; `get(i)` gives element i (i: int or z3 Int).
    `ekind` is the element kind when known (needed for havoc and for byte-range facts)."""

    def __init__(self, length, get, ekind=None, facts=None, tag='list'):
        self.length = length
        self.get = get
        self.ekind = ekind
        self.tag = tag          # 'list' | 'bytes' | 'tuple' | 'range' | 'gen'
        # facts(i) -> list of z3 Bool known about element i (e.g. byte range)
        self.facts = facts

    def __repr__(self):
        return 'View(len=%r,%s)' % (self.length, self.tag)


class Fn:
    def __init__(self, call, name='<fn>'):
        self.call = call
        self.name = name

    def __repr__(self):
        return 'Fn(%s)' % self.name


class ExcVal:
    """An exception instance (class name + args are not modelled)."""

    def __init__(self, cls):
        self.cls = cls

    def __repr__(self):
        return 'Exc(%s)' % self.cls


# ---------------------------------------------------------------- helpers on terms
def is_z3(v):
    return isinstance(v, z3.ExprRef)


def is_conc_int(v):
    return isinstance(v, int) and not isinstance(v, bool)


def is_intlike(v):
    return (isinstance(v, int)) or (is_z3(v) and v.sort() == z3.IntSort())


def is_reallike(v):
    return isinstance(v, (float, fractions.Fraction)) or (is_z3(v) and v.sort() == z3.RealSort())


def is_boollike(v):
    return isinstance(v, bool) or (is_z3(v) and v.sort() == z3.BoolSort())


def is_strlike(v):
    return isinstance(v, str) or (is_z3(v) and v.sort() == z3.StringSort())


def is_concrete(v):
    if isinstance(v, (int, float, str, bytes, fractions.Fraction)) or v is None:
        return True
    if isinstance(v, Tup):
        return all(is_concrete(x) for x in v.items)
    return False


def to_int(v):
    if isinstance(v, bool):
        return z3.IntVal(1 if v else 0)
    if isinstance(v, int):
        return z3.IntVal(v)
    if is_z3(v):
        if v.sort() == z3.IntSort():
            return v
        if v.sort() == z3.BoolSort():
            return z3.If(v, z3.IntVal(1), z3.IntVal(0))
    raise Unsupported('not an int: %r' % (v,))


def frac_of_float(f):
    """Exact rational value of a Python float constant."""
    return fractions.Fraction(f)


def to_real(v):
    if isinstance(v, bool):
        return z3.RealVal(1 if v else 0)
    if isinstance(v, int):
        return z3.RealVal(v)
    if isinstance(v, float):
        fr = fractions.Fraction(v)
        return z3.RealVal(fr.numerator) / z3.RealVal(fr.denominator) if fr.denominator != 1 else z3.RealVal(fr.numerator)
    if isinstance(v, fractions.Fraction):
        return z3.Q(v.numerator, v.denominator)
    if is_z3(v):
        if v.sort() == z3.RealSort():
            return v
        if v.sort() == z3.IntSort():
            return z3.ToReal(v)
        if v.sort() == z3.BoolSort():
            return z3.If(v, z3.RealVal(1), z3.RealVal(0))
    raise Unsupported('not a real: %r' % (v,))


def to_bool_term(v):
    if isinstance(v, bool):
        return z3.BoolVal(v)
    if is_z3(v) and v.sort() == z3.BoolSort():
        return v
    raise Unsupported('not a bool term: %r' % (v,))


def to_str_term(v):
    if isinstance(v, str):
        return z3.StringVal(v)
    if is_z3(v) and v.sort() == z3.StringSort():
        return v
    raise Unsupported('not a str: %r' % (v,))


def simp(t):
    if is_z3(t):
        t = z3.simplify(t)
        if z3.is_int_value(t):
            return t.as_long()
        if z3.is_true(t):
            return True
        if z3.is_false(t):
            return False
    return t


def kind_of(v):
    """Kind of a value (used to havoc it)."""
    if isinstance(v, bool):
        return Bool
    if isinstance(v, int):
        return Int
    if isinstance(v, (float, fractions.Fraction)):
        return Real
    if isinstance(v, str):
        return Str
    if v is None:
        return NoneK
    if isinstance(v, bytes):
        return Bytes
    if is_z3(v):
        s = v.sort()
        if s == z3.IntSort():
            return Int
        if s == z3.RealSort():
            return Real
        if s == z3.BoolSort():
            return Bool
        if s == z3.StringSort():
            return Str
        k = KUnint.__new__(KUnint)
        k.name = s.name()
        k.sort = s
        return k
    if isinstance(v, Tup):
        return KTup(*[kind_of(x) for x in v.items])
    if isinstance(v, Opt):
        return KOpt(kind_of(v.val))
    if isinstance(v, View):
        if v.ekind is None:
            raise Unsupported('cannot havoc a view of unknown element kind')
        return KView(v.ekind)
    if isinstance(v, Rec):
        return KRec(v.cls, **{f: kind_of(x) for f, x in v.fields.items()})
    raise Unsupported('kind_of %r' % (v,))


_fun_cache = {}


def _leaf(sort, name, ctx):
    if not ctx:
        return z3.Const(name, sort)
    key = (name, len(ctx), sort.name())
    f = _fun_cache.get(key)
    if f is None:
        f = z3.Function(name, *([z3.IntSort()] * len(ctx) + [sort]))
        _fun_cache[key] = f
    return f(*[to_int(c) for c in ctx])


def fresh(kind, name, ctx=(), facts=None):
    """A fresh symbolic value of `kind`.  `ctx` are index terms the value depends on
    (elements of views are applications of uninterpreted functions to their index).
    `facts` collects z3 Bools that hold for the fresh value (lengths >= 0, byte ranges)."""
    if facts is None:
        facts = []
    if not isinstance(kind, Kind):
        return kind      # a concrete value fixed by the contract (scope restriction)
    if isinstance(kind, KByte):
        t = _leaf(z3.IntSort(), name, ctx)
        facts.append(z3.And(t >= 0, t <= 255))
        return t
    if isinstance(kind, KInt):
        return _leaf(z3.IntSort(), name, ctx)
    if isinstance(kind, KReal):
        return _leaf(z3.RealSort(), name, ctx)
    if isinstance(kind, KBool):
        return _leaf(z3.BoolSort(), name, ctx)
    if isinstance(kind, KStr):
        return _leaf(z3.StringSort(), name, ctx)
    if isinstance(kind, KUnint):
        return _leaf(kind.sort, name, ctx)
    if isinstance(kind, KNone):
        return None
    if isinstance(kind, KOpt):
        return Opt(_leaf(z3.BoolSort(), name + '.isnone', ctx), fresh(kind.k, name + '.val', ctx, facts))
    if isinstance(kind, KTup):
        return Tup([fresh(k, '%s.%d' % (name, i), ctx, facts) for i, k in enumerate(kind.ks)])
    if isinstance(kind, KRec):
        return Rec(kind.cls, {f: fresh(k, '%s.%s' % (name, f), ctx, facts) for f, k in kind.fields.items()})
    if isinstance(kind, KView):
        ln = _leaf(z3.IntSort(), name + '.len', ctx)
        facts.append(ln >= 0)
        ek = kind.k

        def get(i, _name=name, _ctx=tuple(ctx), _ek=ek):
            return fresh(_ek, _name + '.el', _ctx + (i,), None)

        def vfacts(i, _name=name, _ctx=tuple(ctx), _ek=ek):
            fs = []
            fresh(_ek, _name + '.el', _ctx + (i,), fs)
            return fs
        tag = 'bytes' if isinstance(ek, KByte) else 'list'
        if isinstance(ek, KByte):
            # kind invariant of bytes: every element is in 0..255 (total function, so stated for every index)
            qi = z3.Int(uid('bi'))
            el = get(qi)
            facts.append(z3.ForAll([qi], z3.And(el >= 0, el <= 255), patterns=[el]))
        return View(ln, get, ek, vfacts, tag)
    raise Unsupported('fresh(%r)' % (kind,))
