"""Turning a refuted obligation into a replay file: counter-model -> concrete input -> the real code
under /venv/bin/python, judged by the contract text itself (pyvc/native.py)."""
import fractions
import json
import os
import re
import subprocess
import tempfile

import z3

from .kinds import *
from . import solve

VERIF = os.path.dirname(os.path.dirname(os.path.abspath(__file__)))
VENV_PY = '/venv/bin/python'


def ser_kind(k):
    if not isinstance(k, Kind):
        return {'k': 'const', 'value': k if isinstance(k, (int, str, bool, type(None))) else repr(k)}
    if isinstance(k, KByte):
        return {'k': 'byte'}
    if isinstance(k, KInt):
        return {'k': 'int'}
    if isinstance(k, KReal):
        return {'k': 'real'}
    if isinstance(k, KBool):
        return {'k': 'bool'}
    if isinstance(k, KStr):
        return {'k': 'str'}
    if isinstance(k, KNone):
        return {'k': 'none'}
    if isinstance(k, KOpt):
        return {'k': 'opt', 'of': ser_kind(k.k)}
    if isinstance(k, KTup):
        return {'k': 'tup', 'of': [ser_kind(x) for x in k.ks]}
    if isinstance(k, KView):
        return {'k': 'view', 'of': ser_kind(k.k)}
    if isinstance(k, KRec):
        return {'k': 'rec', 'cls': k.cls, 'fields': {f: ser_kind(x) for f, x in k.fields.items()}}
    raise Unsupported('cannot serialise kind %r' % (k,))


def job_of(contract, reg, mod, pid, obligation):
    spec_src = ''
    import ast
    for name, node in reg.spec_funcs.items():
        spec_src += ast.unparse(node) + '\n\n'
    doms = getattr(contract, 'domains', None) or {}
    params = {}
    for p, k in contract.params.items():
        params[p] = ser_kind(k)
        if p in doms:
            params[p]['domain'] = list(doms[p])
    return {
        'property': pid, 'obligation': obligation, 'file': contract.file, 'func': contract.func,
        'params': params, 'ghost': {p: ser_kind(k) for p, k in contract.ghost.items()},
        'requires': contract.requires, 'ensures': contract.ensures, 'raises': contract.raises,
        'may_raise': contract.may_raise, 'generator': contract.yields is not None, 'spec_source': spec_src,
        'native_gen': contract.native_gen, 'ghost_post_native': contract.ghost_post,
    }


def model_value(m, kind, name, ctx=()):
    """Concrete JSON value of the symbolic input `name` of `kind` in model m."""
    v = fresh(kind, name, ctx, [])
    return concretise(m, v)


def concretise(m, v, cap=24):
    if v is None:
        return None
    if isinstance(v, (bool, int, str)):
        return v
    if isinstance(v, fractions.Fraction):
        return str(v)
    if is_z3(v):
        r = m.eval(v, model_completion=True)
        if z3.is_int_value(r):
            return r.as_long()
        if z3.is_rational_value(r):
            return str(fractions.Fraction(r.numerator_as_long(), r.denominator_as_long()))
        if z3.is_true(r):
            return True
        if z3.is_false(r):
            return False
        if z3.is_string_value(r):
            return r.as_string()
        if z3.is_algebraic_value(r):
            return str(r.approx(20).as_fraction())
        return str(r)
    if isinstance(v, Opt):
        isn = concretise(m, v.isnone) if is_z3(v.isnone) else v.isnone
        return None if isn else concretise(m, v.val)
    if isinstance(v, Tup):
        return [concretise(m, x) for x in v.items]
    if isinstance(v, Rec):
        return {f: concretise(m, x) for f, x in v.fields.items()}
    if isinstance(v, View):
        n = concretise(m, v.length) if is_z3(v.length) else v.length
        n = max(0, min(int(n), cap))
        return [concretise(m, v.get(i)) for i in range(n)]
    raise Unsupported('concretise %r' % (v,))


def live_model(ob, bound=None, timeout_ms=10000):
    """Re-solve the refuted obligation in this process to obtain a model object (optionally with small ints)."""
    for cfg in ('z3-default', 'z3-mbqi'):
        s = z3.Solver()
        for k, val in solve.CONFIGS[cfg].items():
            s.set(k, val)
        s.set('timeout', timeout_ms)
        txt = solve.to_smt2(ob.pc, ob.goal)
        if 'pow2' in txt:
            from . import ops
            for a in ops.pow2_axioms():
                s.add(a)
        for a in ob.pc:
            s.add(a)
        s.add(z3.Not(ob.goal))
        if bound is not None:
            for name, kind in bound[1]:
                t = fresh(kind, name, (), [])
                if is_z3(t) and t.sort() == z3.IntSort():
                    s.add(t >= -bound[0], t <= bound[0])
        if s.check() == z3.sat:
            return s.model()
    return None


def scalar_params(contract):
    out = []

    def walk(kind, name):
        if isinstance(kind, KInt):
            out.append((name, kind))
        elif isinstance(kind, KOpt):
            walk(kind.k, name + '.val')
        elif isinstance(kind, KRec):
            for f, k in kind.fields.items():
                walk(k, name + '.' + f)
        elif isinstance(kind, KView):
            out.append((name + '.len', Int))
    for p, k in list(contract.params.items()) + list(contract.ghost.items()):
        if isinstance(k, Kind):
            walk(k, p)
    return out


def run_native(job, mode, timeout=120, env_extra=None):
    with tempfile.NamedTemporaryFile('w', suffix='.json', delete=False, dir=os.path.join(VERIF, 'replays')) as f:
        json.dump(job, f)
        path = f.name
    try:
        env = dict(os.environ)
        env['PYTHONPATH'] = VERIF
        env.update(env_extra or {})
        p = subprocess.run([VENV_PY, '-m', 'pyvc.native', path, mode], capture_output=True, text=True, timeout=timeout,
                           env=env, cwd=VERIF)
        last = p.stdout.strip().split('\n')[-1] if p.stdout.strip() else ''
        try:
            return json.loads(last)
        except Exception:
            return {'error': (p.stdout + p.stderr)[-2000:]}
    except subprocess.TimeoutExpired:
        return {'error': 'timeout'}
    finally:
        os.unlink(path)


def make_replay(pid, name, ob, res, contract, reg, mod):
    """Returns (replay path, failing-input-found?)."""
    fn = re.sub(r'[^A-Za-z0-9_.-]', '_', name) + '.py'
    path = os.path.join(VERIF, 'replays', pid, fn)
    job = None
    found = None
    notes = []
    solver_out = {'status': res['status'], 'backend': res['backend'], 'tried': res.get('tried'),
                  'model': {k: v for k, v in list((res.get('model') or {}).items())[:60]}}
    custom = getattr(mod, 'REPLAY', {}).get(contract.name)
    if getattr(ob, 'replay_code', None):
        # a closed obligation with its own demonstration: the program gets the solver's model and runs the real code
        src = ('#!/venv/bin/python\n"""Replay for property %s, failed obligation %s\nclause: %s\n"""\nimport sys, os\n'
               'sys.path.insert(0, os.path.join(os.environ.get("PYVC_REPO", "/repo"), "src"))\nMODEL = %r\n'
               % (pid, name, ob.note.replace('"""', "'''"), solver_out['model'])) + ob.replay_code
        with open(path, 'w') as f:
            f.write(src)
        try:
            p_ = subprocess.run([VENV_PY, path], capture_output=True, text=True, timeout=300, cwd=VERIF)
            return path, p_.returncode == 1
        except subprocess.TimeoutExpired:
            return path, False
    try:
        if getattr(contract, 'crosscheck', True) is False and not getattr(contract, 'native_gen', None):
            # the contract is stated over an abstraction the native judge cannot build or evaluate (ids for names, abstract
            # maps, ghost layouts without a generator): no native replay is attempted, the solver's counter-model is the evidence
            raise Unsupported('contract %s is not natively replayable (crosscheck=False)' % contract.name)
        job = job_of(contract, reg, mod, pid, name)
        job['solver_output'] = solver_out
        try:
            from .check import load_findings
            job['known_regions'] = [f['region'] for f in load_findings(pid) if f.get('function') == contract.name]
            import re as _re
            job['known_region_kinds'] = ['exc' if _re.search(r'/(noexc|raises|noraise):', f.get('obligation', '')) else 'post'
                                         for f in load_findings(pid) if f.get('function') == contract.name]
        except Exception:
            pass
        sc = scalar_params(contract)
        candidates = []
        for b in (4, 16, 256, None):
            m = live_model(ob, (b, sc) if b is not None else None, 5000)
            if m is None:
                continue
            inp = {}
            for p, k in list(contract.params.items()) + list(contract.ghost.items()):
                if isinstance(k, Kind):
                    inp[p] = model_value(m, k, p)
                else:
                    inp[p] = None
            candidates.append(inp)
            break
        if contract.native_gen:
            candidates = []
        for inp in candidates:
            j2 = dict(job)
            j2['input'] = inp
            r = run_native(j2, 'judge')
            if r.get('verdict') == 'violation':
                found = inp
                notes.append('counter-model replayed on the real code: %s' % json.dumps(r.get('detail'), default=str)[:1500])
                break
            notes.append('counter-model %s did not reproduce natively (%s)' % (json.dumps(inp)[:300], json.dumps(r, default=str)[:300]))
        if found is None:
            r = run_native(job, 'search', env_extra={'PYVC_SEARCH_S': '25'})
            if r.get('input') is not None:
                found = r['input']
                notes.append('bounded search (%s inputs) found a failing input: %s' % (r.get('tried'), json.dumps(r.get('detail'), default=str)[:1500]))
            else:
                notes.append('bounded search found nothing: %s' % json.dumps(r, default=str)[:500])
    except Exception as e:
        notes.append('replay construction failed: %r' % (e,))
    with open(path, 'w') as f:
        f.write('#!/venv/bin/python\n')
        f.write('"""Replay for property %s, failed obligation %s\n' % (pid, name))
        f.write('clause: %s\nsource line: %s\n' % (ob.note.replace('"""', "'''"), ob.line))
        for n in notes:
            f.write(n.replace('"""', "'''") + '\n')
        f.write('"""\nimport json, sys\nsys.path.insert(0, %r)\nfrom pyvc import native\n' % VERIF)
        if job is not None:
            job['input'] = found
            f.write('JOB = json.loads(%r)\n' % json.dumps(job, default=str))
            f.write('sys.exit(native.run(JOB))\n')
        else:
            f.write('print(%r)\nsys.exit(1)\n' % json.dumps(solver_out, default=str))
    return path, found is not None
