"""Development harness: python3-vt -m pyvc.dev contracts.c15 [func-substring]"""
import sys, importlib, time, traceback
from pyvc.contract import Registry
from pyvc.engine import Engine
from pyvc import solve, source
from pyvc.kinds import Unsupported, ContractError

def main():
    modname = sys.argv[1]
    filt = sys.argv[2] if len(sys.argv) > 2 else ''
    reg = Registry()
    importlib.import_module(modname).register(reg)
    eng = Engine(reg)
    t0 = time.time()
    for c in reg.verify:
        if filt and filt not in c.name:
            continue
        n0 = len(eng.obligations)
        try:
            eng.verify(c)
        except (Unsupported, ContractError) as e:
            print('!!', c.name, type(e).__name__, e)
            traceback.print_exc()
        print('%-40s %d obligations' % (c.name, len(eng.obligations) - n0))
    for lem in reg.lemmas:
        if filt and filt not in lem.name:
            continue
        n0 = len(eng.obligations)
        try:
            eng.verify_lemma(lem)
        except (Unsupported, ContractError) as e:
            print('!!', lem.name, type(e).__name__, e)
            traceback.print_exc()
        print('%-40s %d obligations' % ('lemma ' + lem.name, len(eng.obligations) - n0))
    print('generation %.1fs' % (time.time() - t0))
    import os
    if os.environ.get('PYVC_DUMP'):
        os.makedirs(os.environ['PYVC_DUMP'], exist_ok=True)
        import re
        for i, ob in enumerate(eng.obligations):
            open(os.path.join(os.environ['PYVC_DUMP'], '%03d_%s.smt2' % (i, re.sub(r'[^A-Za-z0-9_.-]', '_', ob.name))), 'w').write(solve.to_smt2(ob.pc, ob.goal))
    res = solve.discharge(eng.obligations, timeout_s=float(sys.argv[3]) if len(sys.argv) > 3 else 10)
    bad = 0
    for ob, r in zip(eng.obligations, res):
        ok = (r['status'] == 'proved') != ob.expect_fail
        if ob.expect_fail and r['status'] in ('refuted', 'refuted-candidate'):
            ok = True
        if not ok or '-v' in sys.argv:
            bad += not ok
            print('%s %-70s %-10s %-10s %.2fs line %s %s' % ('  ' if ok else 'XX', ob.name, r['status'], r['backend'], r['time'], ob.line, ob.note[:80]))
            if not ok and r.get('model'):
                print('     model:', {k: v for k, v in r['model'].items() if '!' not in k or True})
    print('total %d obligations, %d not as expected, %.1fs' % (len(res), bad, time.time() - t0))

main()
