"""Extraction: read modules of /repo's working tree with `ast`, index functions, classes, constants."""
import ast
import os

REPO = os.environ.get('PYVC_REPO', '/repo')
SRC = os.path.join(REPO, 'src')


class ModuleInfo:
    def __init__(self, relpath):
        self.relpath = relpath
        self.path = os.path.join(REPO, relpath)
        with open(self.path, 'r', encoding='utf-8') as f:
            self.text = f.read()
        self.tree = ast.parse(self.text, filename=self.path)
        self.functions = {}     # qualname -> ast.FunctionDef
        self.classes = {}       # name -> ast.ClassDef
        self.assigns = {}       # module-level name -> ast expr (last simple assignment)
        self.imports = {}       # local name -> ('module', dotted) | ('from', dotted, name)
        self.star_imports = []   # modules imported with `from m import *`, in source order
        self.dropped = {'docstrings': 0, 'decorators': []}
        self._index(self.tree.body, '')

    def _abs_module(self, node):
        """dotted name of the module an ImportFrom refers to; relative imports (`from . import x`, `from ..a import b`) are
        resolved against the package of this file"""
        if not getattr(node, 'level', 0):
            return node.module or ''
        parts = self.relpath.split('/')
        if parts and parts[0] == 'src':
            parts = parts[1:]
        parts = parts[:-1]                     # the package this file lives in (also for __init__.py)
        up = node.level - 1
        if up:
            parts = parts[:-up] if up <= len(parts) else []
        base = '.'.join(parts)
        return (base + '.' + node.module) if node.module else base

    def _index(self, body, prefix):
        for node in body:
            if isinstance(node, (ast.FunctionDef, ast.AsyncFunctionDef)):
                self.functions[prefix + node.name] = node
                for d in node.decorator_list:
                    self.dropped['decorators'].append((prefix + node.name, ast.unparse(d)))
            elif isinstance(node, ast.ClassDef):
                if not prefix:
                    self.classes[node.name] = node
                self._index(node.body, prefix + node.name + '.')
                if not prefix:
                    for sub in node.body:
                        if isinstance(sub, ast.Assign) and len(sub.targets) == 1 and isinstance(sub.targets[0], ast.Name):
                            self.assigns[node.name + '.' + sub.targets[0].id] = sub.value
            elif isinstance(node, ast.Assign) and not prefix:
                for t in node.targets:
                    if isinstance(t, ast.Name):
                        self.assigns[t.id] = node.value
            elif isinstance(node, ast.AnnAssign) and not prefix and isinstance(node.target, ast.Name) and node.value is not None:
                self.assigns[node.target.id] = node.value
            elif isinstance(node, ast.Import) and not prefix:
                for a in node.names:
                    self.imports[(a.asname or a.name).split('.')[0] if not a.asname else a.asname] = ('module', a.name)
            elif isinstance(node, ast.ImportFrom) and not prefix:
                for a in node.names:
                    if a.name == '*':
                        self.star_imports.append(node.module or '')
                        continue
                    self.imports[a.asname or a.name] = ('from', self._abs_module(node), a.name)
            elif isinstance(node, (ast.If, ast.Try)) and not prefix:
                # module-level conditional definitions (e.g. try: import c ext): index all branches
                for sub in ast.iter_child_nodes(node):
                    pass
                bodies = [node.body, getattr(node, 'orelse', [])]
                if isinstance(node, ast.Try):
                    bodies += [h.body for h in node.handlers] + [node.finalbody]
                for b in bodies:
                    self._index(b, prefix)


_modules = {}


def load(relpath):
    m = _modules.get(relpath)
    if m is None:
        m = ModuleInfo(relpath)
        _modules[relpath] = m
    return m


def reset():
    _modules.clear()


def module_relpath(dotted):
    """'TotalDepth.common.Slice' -> 'src/TotalDepth/common/Slice.py' if it exists in the tree."""
    p = os.path.join('src', *dotted.split('.'))
    if os.path.isfile(os.path.join(REPO, p + '.py')):
        return p + '.py'
    if os.path.isfile(os.path.join(REPO, p, '__init__.py')):
        return os.path.join(p, '__init__.py')
    return None


def loops_of(fnode):
    """Loops of a function in source (pre-order) order, not descending into nested defs."""
    out = []

    def walk(n):
        for c in ast.iter_child_nodes(n):
            if isinstance(c, (ast.FunctionDef, ast.AsyncFunctionDef, ast.Lambda, ast.ClassDef)):
                continue
            if isinstance(c, (ast.While, ast.For)):
                out.append(c)
            walk(c)
    walk(fnode)
    return out


def loop_header_text(node):
    if isinstance(node, ast.While):
        return 'while ' + ast.unparse(node.test)
    return 'for %s in %s' % (ast.unparse(node.target), ast.unparse(node.iter))


def has_yield(fnode):
    for n in ast.walk(fnode):
        if isinstance(n, (ast.Yield, ast.YieldFrom)):
            # not inside a nested def
            return True
    return False
