"""Operations on symbolic values: arithmetic with Python semantics, bit operations, views."""
import fractions
import z3
from .kinds import *

# ---------------------------------------------------------------- bit-range facts about terms
# For z3 Int terms produced by masks/shifts we remember (nbits, tz): 0 <= t < 2**nbits and t % 2**tz == 0.
_bitinfo = {}


def set_bits(t, nbits, tz):
    if is_z3(t):
        _bitinfo[t.get_id()] = (nbits, tz, t)
    return t


def get_bits(t):
    if isinstance(t, bool):
        return (1, 0)
    if isinstance(t, int):
        if t < 0:
            return None
        tz = (t & -t).bit_length() - 1 if t else 10 ** 6
        return (t.bit_length(), tz)
    if is_z3(t):
        r = _bitinfo.get(t.get_id())
        if r is not None:
            return r[0], r[1]
    return None


def get_tz(t):
    """Known trailing zero count (works for negative multiples too)."""
    if isinstance(t, int) and not isinstance(t, bool):
        return (t & -t).bit_length() - 1 if t else 10 ** 6
    if is_z3(t):
        r = _tzinfo.get(t.get_id())
        if r is not None:
            return r[0]
        b = get_bits(t)
        if b:
            return b[1]
    return 0


_tzinfo = {}


def set_tz(t, tz):
    if is_z3(t):
        _tzinfo[t.get_id()] = (tz, t)
    return t


def mask_runs(m):
    """Contiguous runs of set bits of a non-negative mask: list of (lo, width)."""
    runs = []
    i = 0
    while m >> i:
        if (m >> i) & 1:
            j = i
            while (m >> j) & 1:
                j += 1
            runs.append((i, j - i))
            i = j
        else:
            i += 1
    return runs


def and_const(x, m):
    """x & m for symbolic int x and constant non-negative mask m (valid for negative x too:
    floor div / non-negative mod are Python's two's-complement semantics)."""
    if m == 0:
        return 0
    b = get_bits(x)
    if b is not None and m & ((1 << b[0]) - 1) == (1 << b[0]) - 1:
        return x   # mask covers every bit x can have
    terms = []
    for lo, w in mask_runs(m):
        t = x
        if lo:
            t = t / z3.IntVal(1 << lo)       # z3 Int "/" is div (floor for positive divisor)
        t = t % z3.IntVal(1 << w)
        if lo:
            t = t * z3.IntVal(1 << lo)
        terms.append(t)
    r = terms[0]
    for t in terms[1:]:
        r = r + t
    tz = mask_runs(m)[0][0]
    return set_bits(r, m.bit_length(), tz)


class Pending:
    """Side conditions produced while building a term."""

    def __init__(self):
        self.obligations = []    # (kind, goal term)
        self.facts = []


def int_binop(op, a, b, pend):
    """Python integer arithmetic; a, b are int or z3 Int.  Division by zero is handled by the caller."""
    ca, cb = is_conc_int(a) or isinstance(a, bool), is_conc_int(b) or isinstance(b, bool)
    if ca and cb:
        a, b = int(a), int(b)
        return {'+': lambda: a + b, '-': lambda: a - b, '*': lambda: a * b, '//': lambda: a // b,
                '%': lambda: a % b, '&': lambda: a & b, '|': lambda: a | b, '^': lambda: a ^ b,
                '<<': lambda: a << b, '>>': lambda: a >> b, '**': lambda: a ** b}[op]()
    za, zb = to_int(a), to_int(b)
    if op == '+':
        r = za + zb
        ba, bb = get_bits(a), get_bits(b)
        if ba and bb:
            set_bits(r, max(ba[0], bb[0]) + 1, min(ba[1], bb[1]))
        return r
    if op == '-':
        return za - zb
    if op == '*':
        r = za * zb
        if ca or cb:
            c, x = (int(a), b) if ca else (int(b), a)
            bx = get_bits(x)
            if c > 0 and c & (c - 1) == 0:
                k = c.bit_length() - 1
                if bx:
                    set_bits(r, bx[0] + k, bx[1] + k)
                else:
                    set_tz(r, get_tz(x) + k)
            elif c < 0 and (-c) & (-c - 1) == 0:
                set_tz(r, get_tz(x) + (-c).bit_length() - 1)
            elif c == -1:
                set_tz(r, get_tz(x))
        return r
    if op in ('//', '%'):
        if cb:
            b = int(b)
            if b > 0:
                q = za / z3.IntVal(b)
                if op == '//':
                    bx = get_bits(a)
                    if bx and b & (b - 1) == 0:
                        k = b.bit_length() - 1
                        set_bits(q, max(bx[0] - k, 0), max(bx[1] - k, 0))
                    return q
                r = za % z3.IntVal(b)
                return set_bits(r, (b - 1).bit_length(), 0)
            if b < 0:
                q = (-za) / z3.IntVal(-b)
                return q if op == '//' else za - z3.IntVal(b) * q
            raise ZeroDivisionError
        # symbolic divisor: floor semantics by sign of the divisor
        q = z3.If(zb > 0, za / zb, (-za) / (-zb))
        return q if op == '//' else za - zb * q
    if op == '>>':
        if cb:
            r = za / z3.IntVal(1 << int(b))
            bx = get_bits(a)
            if bx:
                set_bits(r, max(bx[0] - int(b), 0), max(bx[1] - int(b), 0))
            else:
                set_tz(r, max(get_tz(a) - int(b), 0))
            return r
        return za / pow2_int(zb)
    if op == '<<':
        if cb:
            r = za * z3.IntVal(1 << int(b))
            bx = get_bits(a)
            if bx:
                set_bits(r, bx[0] + int(b), bx[1] + int(b))
            else:
                set_tz(r, get_tz(a) + int(b))
            return r
        return za * pow2_int(zb)
    if op == '&':
        if cb or ca:
            m, x = (int(b), a) if cb else (int(a), b)
            if m >= 0:
                return and_const(x, m)
        return bv_op(op, a, b, pend)
    if op == '|':
        if ca and int(a) == 0:
            return b
        if cb and int(b) == 0:
            return a
        ba, bb = get_bits(a), get_bits(b)
        # a | b == a + b when the set bits cannot overlap
        if bb is not None and get_tz(a) >= bb[0]:
            r = za + zb
            if ba:
                set_bits(r, max(ba[0], bb[0]), min(ba[1], bb[1]))
            return r
        if ba is not None and get_tz(b) >= ba[0]:
            r = za + zb
            if bb:
                set_bits(r, max(ba[0], bb[0]), min(ba[1], bb[1]))
            return r
        if cb or ca:
            c, x = (int(b), a) if cb else (int(a), b)
            if c >= 0:
                r = to_int(x) + c - to_int(and_const(x, c))
                return r
        return bv_op(op, a, b, pend)
    if op == '^':
        if cb or ca:
            c, x = (int(b), a) if cb else (int(a), b)
            if c >= 0:
                return to_int(x) + c - 2 * to_int(and_const(x, c))
        return bv_op(op, a, b, pend)
    if op == '**':
        if ca and int(a) > 1 and int(a) & (int(a) - 1) == 0:
            # (2**j)**k: modelled as the real 2**(j*k) (Python gives an int for k >= 0 and a float for k < 0)
            return pow2_real(zb * (int(a).bit_length() - 1))
        if cb and 0 <= int(b) <= 4:
            r = z3.IntVal(1)
            for _ in range(int(b)):
                r = r * za
            return r
        raise Unsupported('int ** with symbolic operands')
    raise Unsupported('int op %s' % op)


BV_WIDTH = 64


def bv_op(op, a, b, pend):
    """Symbolic (op) symbolic on non-negative ints through bit-vectors of BV_WIDTH bits;
    side obligations 0 <= a, b < 2**BV_WIDTH."""
    za, zb = to_int(a), to_int(b)
    lim = z3.IntVal(1 << BV_WIDTH)
    pend.obligations.append(('bvrange', z3.And(za >= 0, za < lim, zb >= 0, zb < lim)))
    x, y = z3.Int2BV(za, BV_WIDTH), z3.Int2BV(zb, BV_WIDTH)
    r = {'&': x & y, '|': x | y, '^': x ^ y}[op]
    return z3.BV2Int(r, False)


_pow2i = z3.Function('pow2i', z3.IntSort(), z3.IntSort())
_pow2r = z3.Function('pow2', z3.IntSort(), z3.RealSort())
POW2_USED = [False]


def pow2_int(k):
    if is_conc_int(k):
        return 1 << k
    POW2_USED[0] = True
    return _pow2i(k)


def pow2_real(k):
    """2**k as a real, k int (possibly negative)."""
    if is_conc_int(k):
        return z3.Q(1 << k, 1) if k >= 0 else z3.Q(1, 1 << -k)
    k = simp(k)
    if is_conc_int(k):
        return pow2_real(k)
    POW2_USED[0] = True
    return _pow2r(k)


def pow2_axioms():
    k, j = z3.Ints('pk pj')
    return [
        z3.ForAll([k], _pow2r(k) > 0, patterns=[_pow2r(k)]),
        z3.ForAll([k], _pow2r(k + 1) == 2 * _pow2r(k), patterns=[_pow2r(k + 1)]),
        z3.ForAll([k], _pow2r(k - 1) * 2 == _pow2r(k), patterns=[_pow2r(k - 1)]),
        _pow2r(0) == 1,
        z3.ForAll([k], z3.Implies(k >= 0, _pow2i(k) >= 1), patterns=[_pow2i(k)]),
        z3.ForAll([k], z3.Implies(k >= 0, z3.ToReal(_pow2i(k)) == _pow2r(k)), patterns=[_pow2i(k)]),
        _pow2i(0) == 1,
    ]


def num_binop(op, a, b, pend):
    """Arithmetic on numbers (int/real).  Zero-division is the caller's business."""
    if isinstance(a, float):
        a = fractions.Fraction(a)
    if isinstance(b, float):
        b = fractions.Fraction(b)
    if is_intlike(a) and is_intlike(b) and op != '/':
        if op == '**' and is_conc_int(b) and b < 0:
            return fractions.Fraction(1) / (fractions.Fraction(a) ** (-b)) if is_conc_int(a) else 1 / (to_real(a) ** (-b))
        return int_binop(op, a, b, pend)
    if isinstance(a, (int, fractions.Fraction)) and isinstance(b, (int, fractions.Fraction)) and op in '+-*/':
        a, b = fractions.Fraction(a), fractions.Fraction(b)
        r = {'+': a + b, '-': a - b, '*': a * b, '/': (a / b) if b else None}[op]
        if r is None:
            raise ZeroDivisionError
        return r
    ra, rb = to_real(a), to_real(b)
    if op == '+':
        return ra + rb
    if op == '-':
        return ra - rb
    if op == '*':
        return ra * rb
    if op == '/':
        return ra / rb
    if op == '**':
        if isinstance(a, (int, fractions.Fraction)) and fractions.Fraction(a) == 2 and is_intlike(b):
            return pow2_real(b)
        if isinstance(a, (int, fractions.Fraction)) and is_intlike(b):
            # c**k with c a power of two
            c = fractions.Fraction(a)
            if c.denominator == 1 and c.numerator > 0 and c.numerator & (c.numerator - 1) == 0:
                return pow2_real(to_int(b) * (c.numerator.bit_length() - 1))
        if is_conc_int(b) and 0 <= b <= 4:
            r = z3.RealVal(1)
            for _ in range(b):
                r = r * ra
            return r
        raise Unsupported('real ** symbolic')
    if op == '//':
        # floor division of reals: floor(a/b)
        return z3.ToReal(z3.ToInt(ra / rb))
    if op == '%':
        return ra - rb * z3.ToReal(z3.ToInt(ra / rb))
    raise Unsupported('real op %s' % op)


def num_cmp(op, a, b):
    if isinstance(a, float):
        a = fractions.Fraction(a)
    if isinstance(b, float):
        b = fractions.Fraction(b)
    if isinstance(a, (int, fractions.Fraction)) and isinstance(b, (int, fractions.Fraction)):
        return {'<': a < b, '<=': a <= b, '>': a > b, '>=': a >= b, '==': a == b, '!=': a != b}[op]
    if is_intlike(a) and is_intlike(b):
        x, y = to_int(a), to_int(b)
    else:
        x, y = to_real(a), to_real(b)
    return {'<': x < y, '<=': x <= y, '>': x > y, '>=': x >= y, '==': x == y, '!=': x != y}[op]


# ---------------------------------------------------------------- booleans
def b_and(*xs):
    out = []
    for x in xs:
        if x is True:
            continue
        if x is False:
            return False
        out.append(to_bool_term(x))
    if not out:
        return True
    return out[0] if len(out) == 1 else z3.And(*out)


def b_or(*xs):
    out = []
    for x in xs:
        if x is False:
            continue
        if x is True:
            return True
        out.append(to_bool_term(x))
    if not out:
        return False
    return out[0] if len(out) == 1 else z3.Or(*out)


def b_not(x):
    if isinstance(x, bool):
        return not x
    return z3.Not(to_bool_term(x))


def b_implies(a, b):
    return b_or(b_not(a), b)


# ---------------------------------------------------------------- structural ite / equality
def v_ite(c, a, b):
    if c is True:
        return a
    if c is False:
        return b
    if a is b:
        return a
    if isinstance(a, Tup) and isinstance(b, Tup) and len(a.items) == len(b.items):
        return Tup([v_ite(c, x, y) for x, y in zip(a.items, b.items)])
    if a is None and b is None:
        return None
    if a is None or b is None or isinstance(a, Opt) or isinstance(b, Opt):
        def as_opt(v, other):
            if isinstance(v, Opt):
                return v
            if v is None:
                o = other.val if isinstance(other, Opt) else other
                return Opt(True, o)
            return Opt(False, v)
        oa, ob = as_opt(a, b), as_opt(b, a)
        return Opt(v_ite(c, oa.isnone, ob.isnone), v_ite(c, oa.val, ob.val))
    if isinstance(a, Rec) and isinstance(b, Rec) and a.cls == b.cls:
        return Rec(a.cls, {f: v_ite(c, a.fields[f], b.fields[f]) for f in a.fields})
    if isinstance(a, (View, bytes)) and isinstance(b, (View, bytes)):
        a, b = as_view(a), as_view(b)
        return View(v_ite(c, a.length, b.length), lambda i: v_ite(c, a.get(i), b.get(i)), a.ekind or b.ekind,
                    None, a.tag)
    if is_boollike(a) and is_boollike(b):
        if a is True and b is False:
            return c
        if a is False and b is True:
            return z3.Not(c)
        return z3.If(c, to_bool_term(a), to_bool_term(b))
    if is_intlike(a) and is_intlike(b):
        if is_conc_int(a) and is_conc_int(b) and a == b:
            return a
        return z3.If(c, to_int(a), to_int(b))
    if (is_intlike(a) or is_reallike(a)) and (is_intlike(b) or is_reallike(b)):
        return z3.If(c, to_real(a), to_real(b))
    if is_strlike(a) and is_strlike(b):
        return z3.If(c, to_str_term(a), to_str_term(b))
    if is_z3(a) and is_z3(b) and a.sort() == b.sort():
        return z3.If(c, a, b)
    if isinstance(a, Ref) and isinstance(b, Ref) and a.oid == b.oid:
        return a
    raise Unsupported('cannot merge values %r / %r' % (a, b))


def v_eq(a, b):
    """Python == on values, as a bool or z3 Bool."""
    if a is None or b is None:
        x = b if a is None else a
        if x is None:
            return True
        if isinstance(x, Opt):
            return x.isnone
        return False
    if isinstance(a, Opt) or isinstance(b, Opt):
        if isinstance(a, Opt) and isinstance(b, Opt):
            return b_or(b_and(a.isnone, b.isnone), b_and(b_not(a.isnone), b_not(b.isnone), v_eq(a.val, b.val)))
        o, x = (a, b) if isinstance(a, Opt) else (b, a)
        return b_and(b_not(o.isnone), v_eq(o.val, x))
    if isinstance(a, Tup) and isinstance(b, Tup):
        if len(a.items) != len(b.items):
            return False
        return b_and(*[v_eq(x, y) for x, y in zip(a.items, b.items)])
    if isinstance(a, (View, bytes)) and isinstance(b, (View, bytes, Tup)) or isinstance(a, Tup) and isinstance(b, (View, bytes)):
        a, b = as_view(a), as_view(b)
        la, lb = a.length, b.length
        if is_conc_int(la) and is_conc_int(lb):
            if la != lb:
                return False
            return b_and(*[v_eq(a.get(i), b.get(i)) for i in range(la)])
        i = z3.Int(uid('eqi'))
        body = v_eq(a.get(i), b.get(i))
        q = z3.ForAll([i], z3.Implies(z3.And(i >= 0, i < to_int(la)), to_bool_term(body)))
        return b_and(num_cmp('==', la, lb), q)
    if isinstance(a, Rec) and isinstance(b, Rec):
        if a.cls != b.cls:
            return False
        return b_and(*[v_eq(a.fields[f], b.fields[f]) for f in a.fields])
    if isinstance(a, Ref) and isinstance(b, Ref):
        return a.oid == b.oid
    if is_strlike(a) and is_strlike(b):
        if isinstance(a, str) and isinstance(b, str):
            return a == b
        return to_str_term(a) == to_str_term(b)
    if is_boollike(a) and is_boollike(b):
        if isinstance(a, bool) and isinstance(b, bool):
            return a == b
        return to_bool_term(a) == to_bool_term(b)
    if (is_intlike(a) or is_reallike(a)) and (is_intlike(b) or is_reallike(b)):
        return num_cmp('==', a, b)
    if is_z3(a) and is_z3(b) and a.sort() == b.sort():
        return a == b
    if isinstance(a, ExcVal) or isinstance(b, ExcVal):
        return False
    if is_strlike(a) != is_strlike(b):
        return False
    raise Unsupported('== on %r and %r' % (a, b))


# ---------------------------------------------------------------- views
def conc_seq_view(items, ekind=None, tag='list'):
    items = list(items)
    n = len(items)

    dflt = []

    def get(i):
        i = simp(i)
        if is_conc_int(i) and 0 <= i < n:
            return items[i]
        if not n:
            # no elements: any index is out of range; an unconstrained value of the element kind
            if not dflt:
                dflt.append(fresh(ekind, uid('nil')) if ekind is not None else 0)
            return dflt[0]
        if is_conc_int(i):
            return items[i]
        r = items[-1] if n else 0
        for k in range(n - 2, -1, -1):
            r = v_ite(to_int(i) == k, items[k], r)
        return r
    if ekind is None and items:
        try:
            ekind = kind_of(items[0])
        except Unsupported:
            ekind = None
    return View(n, get, ekind, None, tag)


def as_view(v):
    if isinstance(v, View):
        return v
    if isinstance(v, (bytes, bytearray)):
        return conc_seq_view(list(v), Byte, 'bytes')
    if isinstance(v, Tup):
        return conc_seq_view(v.items, None, 'tuple')
    if isinstance(v, str):
        return conc_seq_view(list(v), Str, 'str')
    raise Unsupported('not a sequence: %r' % (v,))


def v_len(v):
    if isinstance(v, (bytes, str)):
        return len(v)
    if isinstance(v, Tup):
        return len(v.items)
    if isinstance(v, View):
        return v.length
    if is_z3(v) and v.sort() == z3.StringSort():
        return z3.Length(v)
    raise Unsupported('len(%r)' % (v,))


def norm_index(i, n):
    """Python index normalisation: negative indices count from the end.  Returns (index, in_range)."""
    i = simp(i)
    if is_conc_int(i):
        if i >= 0:
            return i, num_cmp('<', i, n)
        j = int_binop('+', n, i, Pending())
        return j, num_cmp('>=', j, 0)
    zi, zn = to_int(i), to_int(n)
    j = z3.If(zi >= 0, zi, zn + zi)
    return j, z3.And(zi < zn, zi >= -zn)


def clamp_slice_bound(b, n, default):
    """slice.indices() adjustment of one bound for step > 0."""
    if b is None:
        return default
    b = simp(b)
    n = simp(n)
    if is_conc_int(b) and is_conc_int(n):
        if b < 0:
            b = max(b + n, 0)
        return min(b, n)
    if is_conc_int(b):
        if b >= 0:
            if b == 0:
                return 0
            return z3.If(to_int(n) < b, to_int(n), z3.IntVal(b))
        t = to_int(n) + b
        return z3.If(t < 0, z3.IntVal(0), t)
    zb, zn = to_int(b), to_int(n)
    t = z3.If(zb < 0, zb + zn, zb)
    return z3.If(t < 0, z3.IntVal(0), z3.If(t > zn, zn, t))


def v_slice(v, lo, hi, step=None):
    v = as_view(v)
    if step is not None and not (is_conc_int(step) and step == 1):
        raise Unsupported('extended slice on a view')
    n = v.length
    a = clamp_slice_bound(lo, n, 0)
    b = clamp_slice_bound(hi, n, n)
    d = simp(int_binop('-', b, a, Pending()))
    if is_conc_int(d):
        ln = max(d, 0)
    else:
        ln = z3.If(d < 0, z3.IntVal(0), d)
    a_ = a

    def get(i):
        return v.get(simp(int_binop('+', a_, i, Pending())))

    def facts(i):
        return v.facts(simp(int_binop('+', a_, i, Pending()))) if v.facts else []
    return View(ln, get, v.ekind, facts if v.facts else None, v.tag)


def v_concat(a, b):
    a, b = as_view(a), as_view(b)
    la, lb = a.length, b.length
    if is_conc_int(lb) and lb == 0:
        return a
    if is_conc_int(la) and la == 0:
        return View(b.length, b.get, b.ekind or a.ekind, b.facts, a.tag)
    ln = simp(int_binop('+', la, lb, Pending()))

    def get(i):
        i = simp(i)
        c = simp(num_cmp('<', i, la))
        if c is True:
            return a.get(i)
        if c is False:
            return b.get(simp(int_binop('-', i, la, Pending())))
        return v_ite(c, a.get(i), b.get(simp(int_binop('-', i, la, Pending()))))

    def facts(i):
        fs = []
        if a.facts:
            fs += a.facts(i)
        if b.facts:
            fs += b.facts(simp(int_binop('-', i, la, Pending())))
        # each fact holds only on its side: guard
        return []
    return View(ln, get, a.ekind or b.ekind, None, a.tag)


def v_append(a, x):
    return v_concat(a, conc_seq_view([x], None, 'list'))


def v_store(a, idx, x):
    a = as_view(a)

    def get(i):
        c = simp(num_cmp('==', i, idx))
        if c is True:
            return x
        if c is False:
            return a.get(i)
        return v_ite(c, x, a.get(i))
    return View(a.length, get, a.ekind, None, a.tag)


def v_map(a, f, ekind=None):
    a = as_view(a)
    return View(a.length, lambda i: f(a.get(i)), ekind, None, 'list')


def range_view(start, stop, step):
    """range(start, stop, step) as a view; step must have a known sign."""
    step = simp(step)
    pend = Pending()
    if is_conc_int(step):
        if step == 0:
            raise ValueError
        if step > 0:
            d = int_binop('-', stop, start, pend)
            if step == 1:
                n = d
            else:
                n = int_binop('//', int_binop('+', d, step - 1, pend), step, pend)
        else:
            d = int_binop('-', start, stop, pend)
            n = int_binop('//', int_binop('+', d, -step - 1, pend), -step, pend)
        n = simp(n)
        ln = max(n, 0) if is_conc_int(n) else z3.If(n < 0, z3.IntVal(0), n)
    else:
        zs, ze, zt = to_int(start), to_int(stop), to_int(step)
        npos = (ze - zs + zt - 1) / zt
        nneg = (zs - ze + (-zt) - 1) / (-zt)
        n = z3.If(zt > 0, npos, nneg)
        ln = z3.If(n < 0, z3.IntVal(0), n)
    st, sp = start, step
    return View(ln, lambda i: simp(int_binop('+', st, int_binop('*', i, sp, Pending()), Pending())), Int, None, 'range')
