"""Discharging obligations: every obligation is checked on its own (assumptions and not goal unsat?).
z3 (Python API) first under two configurations, /usr/bin/cvc5 on what z3 leaves unknown.
Obligations are shipped to a 16-process pool as SMT-LIB2 text."""
import os
import subprocess
import tempfile
import time
import multiprocessing
import z3
from . import ops

NPROC = int(os.environ.get('PYVC_NPROC', '16'))


def _positive_quantifiers(e, out, depth=0):
    """universally quantified subformulas in positive position under conjunctions"""
    if depth > 6:
        return
    if z3.is_quantifier(e) and e.is_forall():
        out.append(e)
    elif z3.is_and(e):
        for c in e.children():
            _positive_quantifiers(c, out, depth + 1)


def _ground_apps(e, table, seen, bound_depth=0):
    """applications f(t1..tn) of uninterpreted functions with ground arguments, outside any quantifier body"""
    stack = [e]
    while stack:
        t = stack.pop()
        i = t.get_id()
        if i in seen:
            continue
        seen.add(i)
        if z3.is_quantifier(t):
            continue            # terms under binders are not ground
        if z3.is_app(t):
            if t.decl().kind() == z3.Z3_OP_UNINTERPRETED and t.num_args() > 0:
                table.setdefault((t.decl().name(), t.num_args()), []).append(t)
            stack.extend(t.children())


def pre_instantiate(pc, goal, cap=160):
    """Trigger-based instantiation done here, deterministically, before the solver sees the VC: for every universally
    quantified hypothesis and every ground application in the quantifier-free part of the VC that matches one of its
    triggers, the instance is added as a ground hypothesis (a logical consequence of the hypothesis: nothing is assumed).
    Triggers: the declared single-term patterns; for single-variable quantifiers also every plain f(q) of the body (one
    round only, so the matching loops that make such terms unusable as solver patterns cannot occur).  z3's own
    e-matching of these VCs depends on random seeds and on what else the process has solved; with the first-round
    instances given explicitly, the proofs that need only them no longer do."""
    quants = []
    for a in pc:
        _positive_quantifiers(a, quants)
    # the goal is refuted as (not goal): for a goal A => B the antecedent A is a hypothesis too
    ante = []
    g_ = goal
    while z3.is_implies(g_):
        ante.append(g_.arg(0))
        g_ = g_.arg(1)
    if z3.is_or(g_):
        for c in g_.children():
            if z3.is_not(c):
                ante.append(c.arg(0))
    for a in ante:
        _positive_quantifiers(a, quants)
    if not quants:
        return []
    table, seen = {}, set()
    for a in list(pc) + [goal]:
        _ground_apps(a, table, seen)
    out, keys = [], set()
    _instantiate_round(quants, table, out, keys, cap)
    return out


def _instantiate_round(quants, table, out, keys, cap):
    for q in quants:
        n = q.num_vars()
        if n > 2:
            continue
        cands = []
        explicit_only = False
        for pi in range(q.num_patterns()):
            pat = q.pattern(pi)
            if pat.num_args() == 1:           # multi-patterns are left to the solver
                t_ = pat.arg(0)
                if z3.is_app(t_) and t_.decl().name() == 'inst_mark' and z3.is_app(t_.arg(0)) and not z3.is_var(t_.arg(0)):
                    # mark(f(x)): a pattern for THIS instantiation only (the solver never sees an inst_mark term, so it never
                    # instantiates the quantifier by e-matching); no other candidate terms are taken from the body
                    cands.append(t_.arg(0))
                    explicit_only = True
                else:
                    cands.append(t_)
        if n == 1 and not explicit_only:
            have = set(c.get_id() for c in cands)
            for t in _subterms(q.body()):
                if z3.is_app(t) and t.decl().kind() == z3.Z3_OP_UNINTERPRETED and t.num_args() >= 1 and t.get_id() not in have \
                        and any(z3.is_var(a_) for a_ in t.children()) \
                        and all(z3.is_var(a_) or not any(z3.is_var(x) for x in _subterms(a_)) for a_ in t.children()):
                    cands.append(t)
                    have.add(t.get_id())
        for p in cands:
            if not (z3.is_app(p) and p.decl().kind() == z3.Z3_OP_UNINTERPRETED):
                continue
            args = [p.arg(i) for i in range(p.num_args())]
            var_pos = {}
            ok = True
            for i, a_ in enumerate(args):
                if z3.is_var(a_):
                    var_pos.setdefault(z3.get_var_index(a_), i)
                elif any(z3.is_var(x) for x in _subterms(a_)):
                    ok = False
            if not ok or len(var_pos) != n:
                continue
            for g in table.get((p.decl().name(), p.num_args()), []):
                if any((not z3.is_var(a_)) and not a_.eq(g.arg(i)) for i, a_ in enumerate(args)):
                    continue
                # de Bruijn index k refers to bound variable number (n - 1 - k)
                subst = [None] * n
                for k, pos in var_pos.items():
                    subst[n - 1 - k] = g.arg(pos)
                if any(x is None for x in subst):
                    continue
                key = (q.get_id(), tuple(x.get_id() for x in subst))
                if key in keys:
                    continue
                keys.add(key)
                try:
                    out.append(z3.substitute_vars(q.body(), *reversed(subst)))
                except z3.Z3Exception:
                    continue
                if len(out) >= cap:
                    return


def _subterms(t):
    stack, seen = [t], set()
    while stack:
        x = stack.pop()
        if x.get_id() in seen:
            continue
        seen.add(x.get_id())
        yield x
        if z3.is_app(x):
            stack.extend(x.children())


def to_smt2(pc, goal, extra_axioms=()):
    s = z3.Solver()
    for a in extra_axioms:
        s.add(a)
    for a in pc:
        s.add(a)
    if not os.environ.get('PYVC_NO_PREINST'):
        try:
            for a in pre_instantiate(list(pc), goal):
                s.add(a)
        except z3.Z3Exception:
            pass
    s.add(z3.Not(goal))
    return s.to_smt2()


def _split_goal(goal):
    goal = z3.simplify(goal) if False else goal
    if z3.is_and(goal):
        out = []
        for c in goal.children():
            out += _split_goal(c)
        return out
    return [goal]


CONFIGS = {
    'z3-ematch': {'auto_config': False, 'smt.mbqi': False, 'smt.relevancy': 0},
    'z3-default': {},
    'z3-mbqi': {'smt.mbqi': True},
    'z3-seed1': {'smt.random_seed': 7, 'smt.mbqi': True, 'smt.arith.solver': 2},
}


def _check_once_inproc(smt2, cfg, timeout_ms):
    # a fresh context per query: the verdict for a given SMT-LIB text must not depend on which other obligations the same
    # worker process happened to solve before (term ids and symbol tables of a shared context influence z3's heuristics)
    ctx = z3.Context()
    s = z3.Solver(ctx=ctx)
    for k, v in CONFIGS[cfg].items():
        s.set(k, v)
    s.set('timeout', timeout_ms)
    s.from_string(smt2)
    t0 = time.time()
    r = s.check()
    dt = time.time() - t0
    model = None
    if r == z3.sat:
        try:
            m = s.model()
            model = {}
            for d in m.decls():
                if d.arity() == 0:
                    model[d.name()] = str(m[d])
                else:
                    model[d.name()] = str(m[d])
        except Exception as e:   # pragma: no cover
            model = {'<model-error>': str(e)}
    return str(r), dt, model, (s.reason_unknown() if r == z3.unknown else '')


def _check_pow2_exact_inproc(smt2, timeout_ms, lo=-200, hi=200):
    ctx = z3.Context()
    s = z3.Solver(ctx=ctx)
    s.set('timeout', min(timeout_ms, 20000))
    s.from_string(smt2)
    apps, seen = [], set()
    stack = list(s.assertions())
    while stack:
        t = stack.pop()
        if t.get_id() in seen:
            continue
        seen.add(t.get_id())
        if z3.is_quantifier(t):
            stack.append(t.body())
            continue
        if z3.is_app(t):
            if t.decl().name() in ('pow2', 'pow2i') and t.num_args() == 1:
                if any(z3.is_var(x) for x in _subterms(t.arg(0))):
                    return 'unknown', 0.0, None          # a power under a binder: cannot be pinned
                apps.append(t)
            stack.extend(t.children())
    if not apps or len(apps) > 12:
        return 'unknown', 0.0, None
    for a in apps:
        e = a.arg(0)
        real = a.decl().name() == 'pow2'
        cases = []
        for c in range(lo, hi + 1):
            if not real and c < 0:
                continue
            val = (z3.RealVal(2 ** c, ctx) if c >= 0 else z3.Q(1, 2 ** (-c), ctx)) if real else z3.IntVal(2 ** c, ctx)
            cases.append(z3.And(e == c, a == val))
        s.add(z3.Or(*cases))
    t0 = time.time()
    r = s.check()
    dt = time.time() - t0
    model = None
    if r == z3.sat:
        m = s.model()
        model = {d.name(): str(m[d]) for d in m.decls()}
    return str(r), dt, model


def _isolated(fn, args, hard_s, on_kill):
    """Runs fn(*args) in a forked child and kills it at the hard deadline.  z3's own 'timeout' is cooperative: some of its
    procedures (seen: the Diophantine-equation solver of z3 5.1 multiplying huge rationals) do not poll it, and one such
    query used to stall a whole check for tens of minutes.  A killed query is reported as 'unknown', never as a verdict."""
    import pickle, select, signal
    if os.environ.get('PYVC_NO_ISOLATE'):
        return fn(*args)
    r, w = os.pipe()
    pid = os.fork()
    if pid == 0:
        code = 0
        try:
            os.close(r)
            try:
                data = pickle.dumps(('ok', fn(*args)))
            except BaseException as e:      # the parent re-raises it
                data = pickle.dumps(('z3exc' if isinstance(e, z3.Z3Exception) else 'exc', '%s: %s' % (type(e).__name__, str(e)[:500])))
            with os.fdopen(w, 'wb') as f:
                f.write(data)
        except BaseException:
            code = 1
        finally:
            os._exit(code)
    os.close(w)
    t0 = time.time()
    chunks = []
    killed = False
    try:
        while True:
            left = hard_s - (time.time() - t0)
            if left <= 0:
                killed = True
                break
            ready, _, _ = select.select([r], [], [], min(left, 1.0))
            if ready:
                b = os.read(r, 1 << 16)
                if not b:
                    break
                chunks.append(b)
    finally:
        os.close(r)
        if killed:
            try:
                os.kill(pid, signal.SIGKILL)
            except OSError:
                pass
        try:
            os.waitpid(pid, 0)
        except OSError:
            pass
    if killed:
        return on_kill(time.time() - t0)
    if not chunks:
        return on_kill(time.time() - t0, 'solver process died without an answer')
    kind, val = pickle.loads(b''.join(chunks))
    if kind == 'z3exc':
        raise z3.Z3Exception(val)
    if kind == 'exc':
        raise RuntimeError('solver query failed: ' + val)
    return val


def _hard_limit(timeout_ms):
    return timeout_ms / 1000.0 * 1.5 + 10.0


def _check_once(smt2, cfg, timeout_ms):
    return _isolated(_check_once_inproc, (smt2, cfg, timeout_ms), _hard_limit(timeout_ms),
                     lambda dt, why='hard time limit: the solver did not honour its timeout and was killed': ('unknown', dt, None, why))


def _check_pow2_exact(smt2, timeout_ms, lo=-200, hi=200):
    return _isolated(_check_pow2_exact_inproc, (smt2, timeout_ms, lo, hi), _hard_limit(timeout_ms) + 10.0,
                     lambda dt, why='': ('unknown', dt, None))


def _cvc5(smt2, timeout_ms, strings):
    with tempfile.NamedTemporaryFile('w', suffix='.smt2', delete=False, dir=os.environ.get('PYVC_TMP', None)) as f:
        txt = smt2
        if '(set-logic' not in txt:
            txt = '(set-logic ALL)\n' + txt
        f.write(txt)
        path = f.name
    try:
        args = ['/usr/bin/cvc5', '--tlimit=%d' % timeout_ms]
        if strings:
            args.append('--strings-exp')
        t0 = time.time()
        p = subprocess.run(args + [path], capture_output=True, text=True, timeout=timeout_ms / 1000 + 5)
        out = p.stdout.strip().split('\n')[0] if p.stdout.strip() else 'unknown'
        return out if out in ('sat', 'unsat') else 'unknown', time.time() - t0
    except Exception:
        return 'unknown', 0.0
    finally:
        os.unlink(path)


def solve_task(task):
    """task = (index, smt2, has_quant, has_strings, timeout_ms).  Returns dict."""
    idx, smt2, has_quant, has_strings, timeout_ms = task[:5]
    if len(task) > 5 and task[5]:
        # satisfiability expected (cover / canary): model-producing configurations only, short budget
        tried = []
        total = 0.0
        for cfg in ('z3-default', 'z3-mbqi') if has_quant else ('z3-default',):
            try:
                r, dt, model, why = _check_once(smt2, cfg, min(timeout_ms, 5000))
            except z3.Z3Exception as e:
                r, dt, model = 'unknown', 0.0, None
            total += dt
            tried.append((cfg, r, round(dt, 3)))
            if r == 'sat':
                return {'idx': idx, 'status': 'refuted', 'backend': cfg, 'time': total, 'model': model, 'tried': tried}
            if r == 'unsat':
                return {'idx': idx, 'status': 'proved', 'backend': cfg, 'time': total, 'tried': tried}
        return {'idx': idx, 'status': 'unknown', 'backend': '-', 'time': total, 'tried': tried}
    order = ['z3-ematch', 'z3-mbqi-short', 'z3-default', 'z3-seed1'] if has_quant else ['z3-default', 'z3-ematch']
    if len(task) > 8 and task[8]:
        order = list(task[8])        # a contract may name the stage that suits its VCs first (all stages stay available)
    tried = []
    total = 0.0
    for cfg in order:
        try:
            short_cap = 30000 if (len(task) > 7 and task[7]) else 6000
            r, dt, model, why = _check_once(smt2, cfg.replace('-short', ''), min(timeout_ms, short_cap) if cfg.endswith('-short') else timeout_ms)
        except z3.Z3Exception as e:
            r, dt, model, why = 'unknown', 0.0, None, 'z3 exception: %s' % e
        total += dt
        tried.append((cfg, r, round(dt, 3)))
        if r == 'unsat':
            return {'idx': idx, 'status': 'proved', 'backend': cfg, 'time': total, 'tried': tried}
        if r == 'sat' and (not has_quant or cfg != 'z3-ematch'):
            return {'idx': idx, 'status': 'refuted', 'backend': cfg, 'time': total, 'model': model, 'tried': tried}
        if r == 'sat':
            # e-matching without MBQI reported sat on a quantified problem: candidate model, confirm below
            cand = model
    # cvc5 (not in the patient second pass: it had its turn in the first)
    patient = len(task) > 7 and task[7]
    if patient:
        r, dt = 'unknown', 0.0
    else:
        r, dt = _cvc5(smt2, timeout_ms, has_strings)
        total += dt
        tried.append(('cvc5', r, round(dt, 3)))
    if r == 'unsat':
        return {'idx': idx, 'status': 'proved', 'backend': 'cvc5', 'time': total, 'tried': tried}
    # 'z3-mbqi' is the default configuration under another name: it is only worth a stage of its own when 'z3-default' has not
    # already had the full budget
    if has_quant and not any(c == 'z3-default' for c, _, _ in tried):
        try:
            r2, dt2, model, why = _check_once(smt2, 'z3-mbqi', timeout_ms)
        except z3.Z3Exception as e:
            r2, dt2, model = 'unknown', 0.0, None
        total += dt2
        tried.append(('z3-mbqi', r2, round(dt2, 3)))
        if r2 == 'unsat':
            return {'idx': idx, 'status': 'proved', 'backend': 'z3-mbqi', 'time': total, 'tried': tried}
        if r2 == 'sat':
            return {'idx': idx, 'status': 'refuted', 'backend': 'z3-mbqi', 'time': total, 'model': model, 'tried': tried}
    if r == 'sat':
        return {'idx': idx, 'status': 'refuted', 'backend': 'cvc5', 'time': total, 'model': None, 'tried': tried}
    if len(task) > 6 and task[6]:
        # the same obligation with every 2**t term pinned to the true power for t in -200..200 (ground, no axioms): a model of
        # THAT is a genuine counterexample (all powers in it are real powers), so it refutes
        try:
            r4, dt4, model4 = _check_pow2_exact(task[6], timeout_ms)
        except z3.Z3Exception:
            r4, dt4, model4 = 'unknown', 0.0, None
        total += dt4
        tried.append(('z3-default/pow2-exact-in-[-200,200]', r4, round(dt4, 3)))
        if r4 == 'sat':
            return {'idx': idx, 'status': 'refuted', 'backend': 'z3-default/pow2-exact', 'time': total, 'model': model4, 'tried': tried}
        # the same obligation with the pow2 axioms dropped (pow2 uninterpreted): a model is only a candidate
        try:
            r3, dt3, model, why = _check_once(task[6], 'z3-default', timeout_ms)
        except z3.Z3Exception:
            r3, dt3, model = 'unknown', 0.0, None
        total += dt3
        tried.append(('z3-default/no-pow2-axioms', r3, round(dt3, 3)))
        if r3 == 'sat':
            return {'idx': idx, 'status': 'refuted-candidate', 'backend': 'z3-default', 'time': total, 'model': model, 'tried': tried}
    # a quantified problem on which e-matching saturates without contradiction is a *candidate* refutation
    for cfg, rr, _ in tried:
        if rr == 'sat':
            return {'idx': idx, 'status': 'refuted-candidate', 'backend': cfg, 'time': total,
                    'model': locals().get('cand'), 'tried': tried}
    return {'idx': idx, 'status': 'unknown', 'backend': '-', 'time': total, 'tried': tried}


def has_quantifier(e, seen=None):
    if seen is None:
        seen = set()
    stack = [e]
    while stack:
        x = stack.pop()
        i = x.get_id()
        if i in seen:
            continue
        seen.add(i)
        if z3.is_quantifier(x):
            return True
        stack.extend(x.children())
    return False


def uses_strings(smt2):
    return 'String' in smt2 or 'str.' in smt2 or 're.' in smt2


def discharge(obligations, timeout_s=10, pool=None, second_pass=True):
    """Returns list of result dicts aligned with obligations."""
    tasks = []
    axioms = ops.pow2_axioms()
    for i, ob in enumerate(obligations):
        txt = None
        extra = ()
        smt2 = to_smt2(ob.pc, ob.goal)
        plain = None
        if 'pow2' in smt2:
            plain = smt2
            smt2 = to_smt2(ob.pc, ob.goal, axioms)
        hq = 'forall' in smt2 or 'exists' in smt2
        to = int((getattr(ob, 'timeout', None) or timeout_s) * 1000)
        tasks.append((i, smt2, hq, uses_strings(smt2), to, getattr(ob, 'expect_fail', False), plain, False, getattr(ob, 'solver_order', None)))
    if not tasks:
        return []
    own = pool is None
    if own:
        pool = multiprocessing.get_context('fork').Pool(min(NPROC, max(1, len(tasks))))
    try:
        res = pool.map(solve_task, tasks, chunksize=1)
    finally:
        if own:
            pool.close()
            pool.join()
    # second, patient pass for whatever stayed undecided: half the processes (the first pass may have been starved by other
    # work on the machine), twice the budget (30 to 90 s), a long MBQI stage, no cvc5.  Verdicts `proved` / `refuted` of the first pass are final.
    again = [i for i, (r, t) in enumerate(zip(res, tasks)) if r['status'] == 'unknown' and not t[5] and not getattr(obligations[i], 'known_short', False)]
    if again and len(again) <= 12 and second_pass and not os.environ.get('PYVC_NO_RETRY'):
        # (many undecided obligations at once mean a changed tree with false obligations, not a starved solver: no second pass)
        tasks2 = [tasks[i][:4] + (min(max(tasks[i][4] * 2, 30000), 90000),) + tasks[i][5:7] + (True,) + tasks[i][8:9] for i in again]
        pool2 = multiprocessing.get_context('fork').Pool(min(8, len(tasks2)))
        try:
            res2 = pool2.map(solve_task, tasks2, chunksize=1)
        finally:
            pool2.close()
            pool2.join()
        for i, r2 in zip(again, res2):
            r2['time'] = r2.get('time', 0) + res[i].get('time', 0)
            r2['retried'] = True
            res[i] = r2
    for r, t in zip(res, tasks):
        r['smt2_len'] = len(t[1])
    return res
