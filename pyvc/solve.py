"""Discharging obligations: every obligation is checked on its own (assumptions and not goal unsat?).
z3 (Python API) first under two configurations, /usr/bin/cvc5 on what z3 leaves unknown.
Obligations are shipped to a 16-process pool as SMT-LIB2 text."""
import os
import subprocess
import tempfile
import time
import multiprocessing
import z3
from . import ops

NPROC = int(os.environ.get('PYVC_NPROC', '16'))


def to_smt2(pc, goal, extra_axioms=()):
    s = z3.Solver()
    for a in extra_axioms:
        s.add(a)
    for a in pc:
        s.add(a)
    s.add(z3.Not(goal))
    return s.to_smt2()


def _split_goal(goal):
    goal = z3.simplify(goal) if False else goal
    if z3.is_and(goal):
        out = []
        for c in goal.children():
            out += _split_goal(c)
        return out
    return [goal]


CONFIGS = {
    'z3-ematch': {'auto_config': False, 'smt.mbqi': False, 'smt.relevancy': 0},
    'z3-default': {},
    'z3-mbqi': {'smt.mbqi': True},
    'z3-seed1': {'smt.random_seed': 7, 'sat.random_seed': 7, 'smt.mbqi': True, 'smt.arith.solver': 2},
}


def _check_once(smt2, cfg, timeout_ms):
    s = z3.Solver()
    for k, v in CONFIGS[cfg].items():
        s.set(k, v)
    s.set('timeout', timeout_ms)
    s.from_string(smt2)
    t0 = time.time()
    r = s.check()
    dt = time.time() - t0
    model = None
    if r == z3.sat:
        try:
            m = s.model()
            model = {}
            for d in m.decls():
                if d.arity() == 0:
                    model[d.name()] = str(m[d])
                else:
                    model[d.name()] = str(m[d])
        except Exception as e:   # pragma: no cover
            model = {'<model-error>': str(e)}
    return str(r), dt, model, (s.reason_unknown() if r == z3.unknown else '')


def _cvc5(smt2, timeout_ms, strings):
    with tempfile.NamedTemporaryFile('w', suffix='.smt2', delete=False, dir=os.environ.get('PYVC_TMP', None)) as f:
        txt = smt2
        if '(set-logic' not in txt:
            txt = '(set-logic ALL)\n' + txt
        f.write(txt)
        path = f.name
    try:
        args = ['/usr/bin/cvc5', '--tlimit=%d' % timeout_ms]
        if strings:
            args.append('--strings-exp')
        t0 = time.time()
        p = subprocess.run(args + [path], capture_output=True, text=True, timeout=timeout_ms / 1000 + 5)
        out = p.stdout.strip().split('\n')[0] if p.stdout.strip() else 'unknown'
        return out if out in ('sat', 'unsat') else 'unknown', time.time() - t0
    except Exception:
        return 'unknown', 0.0
    finally:
        os.unlink(path)


def solve_task(task):
    """task = (index, smt2, has_quant, has_strings, timeout_ms).  Returns dict."""
    idx, smt2, has_quant, has_strings, timeout_ms = task[:5]
    if len(task) > 5 and task[5]:
        # satisfiability expected (cover / canary): model-producing configurations only, short budget
        tried = []
        total = 0.0
        for cfg in ('z3-default', 'z3-mbqi') if has_quant else ('z3-default',):
            try:
                r, dt, model, why = _check_once(smt2, cfg, min(timeout_ms, 5000))
            except z3.Z3Exception as e:
                r, dt, model = 'unknown', 0.0, None
            total += dt
            tried.append((cfg, r, round(dt, 3)))
            if r == 'sat':
                return {'idx': idx, 'status': 'refuted', 'backend': cfg, 'time': total, 'model': model, 'tried': tried}
            if r == 'unsat':
                return {'idx': idx, 'status': 'proved', 'backend': cfg, 'time': total, 'tried': tried}
        return {'idx': idx, 'status': 'unknown', 'backend': '-', 'time': total, 'tried': tried}
    order = ['z3-ematch', 'z3-mbqi-short', 'z3-default', 'z3-seed1'] if has_quant else ['z3-default', 'z3-ematch']
    tried = []
    total = 0.0
    for cfg in order:
        try:
            r, dt, model, why = _check_once(smt2, cfg.replace('-short', ''), min(timeout_ms, 6000) if cfg.endswith('-short') else timeout_ms)
        except z3.Z3Exception as e:
            r, dt, model, why = 'unknown', 0.0, None, 'z3 exception: %s' % e
        total += dt
        tried.append((cfg, r, round(dt, 3)))
        if r == 'unsat':
            return {'idx': idx, 'status': 'proved', 'backend': cfg, 'time': total, 'tried': tried}
        if r == 'sat' and (not has_quant or cfg != 'z3-ematch'):
            return {'idx': idx, 'status': 'refuted', 'backend': cfg, 'time': total, 'model': model, 'tried': tried}
        if r == 'sat':
            # e-matching without MBQI reported sat on a quantified problem: candidate model, confirm below
            cand = model
    # cvc5
    r, dt = _cvc5(smt2, timeout_ms, has_strings)
    total += dt
    tried.append(('cvc5', r, round(dt, 3)))
    if r == 'unsat':
        return {'idx': idx, 'status': 'proved', 'backend': 'cvc5', 'time': total, 'tried': tried}
    if has_quant:
        try:
            r2, dt2, model, why = _check_once(smt2, 'z3-mbqi', timeout_ms)
        except z3.Z3Exception as e:
            r2, dt2, model = 'unknown', 0.0, None
        total += dt2
        tried.append(('z3-mbqi', r2, round(dt2, 3)))
        if r2 == 'unsat':
            return {'idx': idx, 'status': 'proved', 'backend': 'z3-mbqi', 'time': total, 'tried': tried}
        if r2 == 'sat':
            return {'idx': idx, 'status': 'refuted', 'backend': 'z3-mbqi', 'time': total, 'model': model, 'tried': tried}
    if r == 'sat':
        return {'idx': idx, 'status': 'refuted', 'backend': 'cvc5', 'time': total, 'model': None, 'tried': tried}
    if len(task) > 6 and task[6]:
        # the same obligation with the pow2 axioms dropped (pow2 uninterpreted): a model is only a candidate
        try:
            r3, dt3, model, why = _check_once(task[6], 'z3-default', timeout_ms)
        except z3.Z3Exception:
            r3, dt3, model = 'unknown', 0.0, None
        total += dt3
        tried.append(('z3-default/no-pow2-axioms', r3, round(dt3, 3)))
        if r3 == 'sat':
            return {'idx': idx, 'status': 'refuted-candidate', 'backend': 'z3-default', 'time': total, 'model': model, 'tried': tried}
    # a quantified problem on which e-matching saturates without contradiction is a *candidate* refutation
    for cfg, rr, _ in tried:
        if rr == 'sat':
            return {'idx': idx, 'status': 'refuted-candidate', 'backend': cfg, 'time': total,
                    'model': locals().get('cand'), 'tried': tried}
    return {'idx': idx, 'status': 'unknown', 'backend': '-', 'time': total, 'tried': tried}


def has_quantifier(e, seen=None):
    if seen is None:
        seen = set()
    stack = [e]
    while stack:
        x = stack.pop()
        i = x.get_id()
        if i in seen:
            continue
        seen.add(i)
        if z3.is_quantifier(x):
            return True
        stack.extend(x.children())
    return False


def uses_strings(smt2):
    return 'String' in smt2 or 'str.' in smt2 or 're.' in smt2


def discharge(obligations, timeout_s=10, pool=None):
    """Returns list of result dicts aligned with obligations."""
    tasks = []
    axioms = ops.pow2_axioms()
    for i, ob in enumerate(obligations):
        txt = None
        extra = ()
        smt2 = to_smt2(ob.pc, ob.goal)
        plain = None
        if 'pow2' in smt2:
            plain = smt2
            smt2 = to_smt2(ob.pc, ob.goal, axioms)
        hq = 'forall' in smt2 or 'exists' in smt2
        to = int((getattr(ob, 'timeout', None) or timeout_s) * 1000)
        tasks.append((i, smt2, hq, uses_strings(smt2), to, getattr(ob, 'expect_fail', False), plain))
    if not tasks:
        return []
    own = pool is None
    if own:
        pool = multiprocessing.get_context('fork').Pool(min(NPROC, max(1, len(tasks))))
    try:
        res = pool.map(solve_task, tasks, chunksize=1)
    finally:
        if own:
            pool.close()
            pool.join()
    for r, t in zip(res, tasks):
        r['smt2_len'] = len(t[1])
    return res
