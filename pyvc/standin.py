"""Helper for bounded stand-ins: run a script under /venv/bin/python against the repository tree and collect a
JSON verdict.  A stand-in is labelled bounded and is never added to the discharged obligations."""
import json
import os
import subprocess

VERIF = os.path.dirname(os.path.dirname(os.path.abspath(__file__)))
PRELUDE = '''
import sys, json, random, os
sys.path.insert(0, %r)
sys.path.insert(0, os.path.join(os.environ.get('PYVC_REPO', '/repo'), 'src'))
'''


def run(name, kind, bound, code, timeout=600, replay_head=''):
    """`code` must print a final JSON line {"cases": n, "bad": [witness, ...], optional "nontrivial": m}."""
    full = PRELUDE % VERIF + code
    env = dict(os.environ)
    env['PYTHONPATH'] = VERIF
    try:
        p = subprocess.run(['/venv/bin/python', '-c', full], capture_output=True, text=True, timeout=timeout, env=env, cwd=VERIF)
        r = json.loads(p.stdout.strip().split('\n')[-1])
    except Exception as e:
        out = (getattr(e, 'stdout', '') or '') if not isinstance(e, ValueError) else ''
        try:
            out = (p.stdout + p.stderr)[-1500:]
        except Exception:
            pass
        return {'name': name, 'kind': kind, 'bound': bound, 'cases': 0, 'crashed': True, 'error': str(e)[:300] + ' ' + out,
                'violation': 'stand-in crashed: %s' % str(e)[:200],
                'replay': '#!/venv/bin/python\n"""stand-in %s crashed"""\nprint(%r)\nimport sys; sys.exit(1)\n' % (name, out)}
    res = {'name': name, 'kind': kind, 'bound': bound, 'cases': r.get('cases', 0)}
    for k in ('nontrivial', 'detail'):
        if k in r:
            res[k] = r[k]
    if r.get('bad'):
        res['violation'] = '%s: %s' % (name, json.dumps(r['bad'][0])[:400])
        res['witness'] = r['bad'][0]
        res['replay'] = ('#!/venv/bin/python\n"""Bounded stand-in %s found a failing case: %s\nRe-runs the stand-in on the current tree."""\n'
                         % (name, json.dumps(r['bad'][0])[:600].replace('"""', '')) + full +
                         '\n# exit status: 1 if the stand-in still finds a failing case\n')
    return res


def run_script(name, script, seed, cases, kind, bound, extra_args=(), timeout=1800):
    """Run a stand-in script of /verif/standins (interface: --seed --cases; last stdout line is a JSON verdict)."""
    path = os.path.join(VERIF, 'standins', script)
    env = dict(os.environ)
    env['PYTHONPATH'] = VERIF
    cmd = ['/venv/bin/python', path, '--seed', str(seed), '--cases', str(cases)] + list(extra_args)
    try:
        p = subprocess.run(cmd, capture_output=True, text=True, timeout=timeout, env=env, cwd=VERIF)
        r = json.loads(p.stdout.strip().split('\n')[-1])
    except Exception as e:
        out = ''
        try:
            out = (p.stdout + p.stderr)[-1500:]
        except Exception:
            pass
        return {'name': name, 'kind': kind, 'bound': bound, 'cases': 0, 'crashed': True, 'error': str(e)[:300] + ' ' + out,
                'violation': 'stand-in crashed: %s' % str(e)[:200],
                'replay': '#!/venv/bin/python\n"""stand-in %s crashed"""\nprint(%r)\nimport sys; sys.exit(1)\n' % (name, out)}
    res = {'name': name, 'kind': kind, 'bound': bound, 'cases': r.get('cases', 0), 'nontrivial': r.get('nontrivial', r.get('cases', 0)),
           'cmd': ' '.join(cmd)}
    if r.get('bad'):
        res['violation'] = '%s: %s' % (name, json.dumps(r['bad'][0])[:400])
        res['witness'] = r['bad'][0]
        res['replay'] = ('#!/venv/bin/python\n"""Bounded stand-in %s found a failing case: %s"""\nimport subprocess, sys\n'
                         'sys.exit(subprocess.call(%r))\n' % (name, json.dumps(r['bad'][0])[:800].replace('"""', ''), cmd))
    return res
