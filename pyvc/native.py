"""Native side of replay and of the concrete falsifier.  Runs under /venv/bin/python (stdlib only):
builds concrete inputs, calls the REAL function from the repository tree and judges the outcome with the
same contract text the prover discharged (requires / ensures / raises evaluated by CPython)."""
import ast
import copy
import fractions
import importlib
import itertools
import json
import os
import random
import sys
import time

REPO = os.environ.get('PYVC_REPO', '/repo')


def _prelude():
    def forall(lo, hi, f, trigger=None):
        return all(f(i) for i in range(lo, hi))

    def forall_n(f, trigger=None):
        import inspect
        n = len(inspect.signature(f).parameters)
        return all(f(*c) for c in itertools.product(range(-1, 40), repeat=n))

    def exists(lo, hi, f, trigger=None):
        return any(f(i) for i in range(lo, hi))

    def implies(a, b):
        return (not a) or bool(b)

    def iff(a, b):
        return bool(a) == bool(b)

    def ite(c, a, b):
        return a if c else b

    def is_none(x):
        return x is None

    def real(x):
        return fractions.Fraction(x)

    def pow2(k):
        return fractions.Fraction(2) ** k

    def floor(x):
        import math
        return math.floor(x)

    def seq(n, f):
        return [f(i) for i in range(n)]

    def is_int(x):
        return isinstance(x, int) and not isinstance(x, bool)
    ctx = {'data': b''}

    def file_pred(name, lo, hi):
        """native meaning of the uninterpreted whole-content predicates used in contracts"""
        data = ctx['data'][lo:hi]
        if name == 'dat':
            import io
            from TotalDepth.DAT import DAT_parser
            try:
                return bool(DAT_parser.can_parse_file(io.StringIO(data.decode('ascii'))))
            except UnicodeDecodeError:
                return False
        raise RuntimeError('unknown content predicate %r' % name)

    def py_float_ok(s):
        try:
            float(s)
            return True
        except (ValueError, OverflowError):
            return False

    def py_float(s):
        return float(s)

    def py_int_ok(s):
        try:
            int(s)
            return True
        except ValueError:
            return False

    def py_strip(s):
        return s.strip()
    return dict(forall_n=forall_n, forall=forall, exists=exists, implies=implies, iff=iff, ite=ite, is_none=is_none, real=real,
                pow2=pow2, floor=floor, seq=seq, is_int=is_int, py_float_ok=py_float_ok, py_float=py_float, py_int_ok=py_int_ok,
                py_int=int, py_strip=py_strip, file_pred=file_pred, _ctx=ctx)


class _Lazy(ast.NodeTransformer):
    """implies(a, b) -> (not a) or b ; ite(c, a, b) -> a if c else b  (short-circuit like the logic)"""

    def visit_Call(self, n):
        n = self.generic_visit(n)
        if isinstance(n.func, ast.Name) and n.func.id == 'implies' and len(n.args) == 2:
            return ast.copy_location(ast.BoolOp(ast.Or(), [ast.UnaryOp(ast.Not(), n.args[0]), n.args[1]]), n)
        if isinstance(n.func, ast.Name) and n.func.id == 'ite' and len(n.args) == 3:
            return ast.copy_location(ast.IfExp(n.args[0], n.args[1], n.args[2]), n)
        return n


def exec_spec_source(text, glob):
    tree = _Lazy().visit(ast.parse(text or ''))
    ast.fix_missing_locations(tree)
    exec(compile(tree, '<spec-functions>', 'exec'), glob)


def import_target(relfile):
    src = os.path.join(REPO, 'src')
    if src not in sys.path:
        sys.path.insert(0, src)
    dotted = relfile[len('src/'):-3].replace('/', '.')
    return importlib.import_module(dotted)


def build(kind, val, module):
    """Concrete Python object for a serialised kind and a JSON value."""
    k = kind['k']
    if k in ('int', 'byte'):
        return int(val)
    if k == 'real':
        if isinstance(val, str):
            return float(fractions.Fraction(val))
        return float(val)
    if k == 'bool':
        return bool(val)
    if k == 'str':
        return str(val)
    if k == 'none':
        return None
    if k == 'const':
        return kind['value']
    if k == 'opt':
        return None if val is None else build(kind['of'], val, module)
    if k == 'tup':
        return tuple(build(kk, v, module) for kk, v in zip(kind['of'], val))
    if k == 'view':
        items = [build(kind['of'], v, module) for v in val]
        if kind['of']['k'] == 'byte':
            return bytes(items)
        return items
    if k == 'rec':
        cls = kind['cls']
        fields = {f: build(fk, val[f], module) for f, fk in kind['fields'].items()}
        if cls == 'slice':
            return slice(fields['start'], fields['stop'], fields['step'])
        c = getattr(module, cls, None)
        if c is None:
            for m in list(sys.modules.values()):
                if m and getattr(m, '__name__', '').startswith('TotalDepth') and hasattr(m, cls):
                    c = getattr(m, cls)
                    break
        if c is None:
            raise RuntimeError('class %s not found' % cls)
        if hasattr(c, '_fields') and issubclass(c, tuple):
            for f in c._fields:
                fields.setdefault(f, '')
            return c(**fields)
        o = c.__new__(c)
        for f, v in fields.items():
            try:
                setattr(o, f, v)
            except AttributeError:
                object.__setattr__(o, f, v)
        return o
    raise RuntimeError('kind %r' % (kind,))


def eval_spec(text, ns, pre_ns, glob):
    tree = ast.parse(text.strip(), mode='eval')
    olds = {}

    class T(ast.NodeTransformer):
        def visit_Call(self, n):
            if isinstance(n.func, ast.Name) and n.func.id == 'old':
                e = ast.Expression(n.args[0])
                ast.fix_missing_locations(e)
                key = '__old%d' % len(olds)
                olds[key] = eval(compile(e, '<old>', 'eval'), glob, pre_ns)
                return ast.copy_location(ast.Name(key, ast.Load()), n)
            n = self.generic_visit(n)
            if isinstance(n.func, ast.Name) and n.func.id == 'implies' and len(n.args) == 2:
                return ast.copy_location(ast.BoolOp(ast.Or(), [ast.UnaryOp(ast.Not(), n.args[0]), n.args[1]]), n)
            if isinstance(n.func, ast.Name) and n.func.id == 'ite' and len(n.args) == 3:
                return ast.copy_location(ast.IfExp(n.args[0], n.args[1], n.args[2]), n)
            return n
    tree = T().visit(tree)
    ast.fix_missing_locations(tree)
    ns2 = dict(ns)
    ns2.update(olds)
    g = dict(glob)
    g.update(ns2)     # lambdas inside the expression see the names through globals
    return eval(compile(tree, '<spec>', 'eval'), g, ns2)


def judge(job, inputs, verbose=False, prebuilt=None):
    """Run the real function on `inputs` (dict param -> JSON value).  Returns (verdict, detail):
    verdict in 'ok' | 'skip' (precondition false) | 'violation'."""
    module = import_target(job['file'])
    glob = _prelude()
    exec_spec_source(job.get('spec_source', ''), glob)
    args = {}
    if prebuilt is not None:
        args = prebuilt
        inputs = {k: repr(v)[:200] for k, v in prebuilt.items()}
    else:
        for p, kind in job['params'].items():
            args[p] = build(kind, inputs.get(p), module)
        for p, kind in job.get('ghost', {}).items():
            args[p] = build(kind, inputs.get(p), module)
    pre_ns = copy.deepcopy(args)
    for v_ in args.values():
        if hasattr(v_, 'getvalue') and hasattr(v_, 'data'):
            glob['_ctx']['data'] = bytes(v_.getvalue())
    try:
        for r in job['requires']:
            if not eval_spec(r, args, pre_ns, glob):
                return 'skip', 'precondition false: %s' % r
    except Exception as e:
        return 'skip', 'precondition not evaluable: %r' % (e,)
    # the callee
    target = module
    parts = job['func'].split('.')
    for prt in parts:
        target = getattr(target, prt)
    callargs = [args[p] for p in job['params'] if p not in job.get('ghost', {})]
    if isinstance(target, property):
        target = target.fget
    exc = None
    result = None
    try:
        result = target(*callargs)
        if job.get('generator'):
            result = list(result)
    except Exception as e:
        exc = e
    ns = dict(args)
    ns['result'] = result
    ns['out'] = result
    known = False
    kinds = job.get('known_region_kinds') or ['any'] * len(job.get('known_regions', []))
    for reg_, kind_ in zip(job.get('known_regions', []), kinds):
        # a finding about a value (a postcondition / invariant obligation) does not cover an exception the contract does not
        # allow, and a finding about an exception does not cover a wrong value: a different violation is still reported
        if (kind_ == 'post' and exc is not None) or (kind_ == 'exc' and exc is None):
            continue
        try:
            if eval_spec(reg_, dict(pre_ns), pre_ns, glob):
                known = True
        except Exception:
            pass
    if known:
        return 'known', {'inputs': inputs if not isinstance(inputs, dict) or prebuilt is None else inputs}
    detail = {'inputs': inputs, 'result': repr(result)[:400], 'exception': repr(exc) if exc else None}
    if exc is not None:
        allowed = False
        for table in (job.get('raises', {}), job.get('may_raise', {})):
            for ecls, cond in table.items():
                if ecls in [c.__name__ for c in type(exc).__mro__] or ecls == 'struct.error' and type(exc).__name__ == 'error':
                    try:
                        if eval_spec(cond, dict(pre_ns), pre_ns, glob):
                            allowed = True
                    except Exception:
                        pass
        if not allowed:
            detail['why'] = 'exception %r is not permitted by the contract for this input' % (exc,)
            return 'violation', detail
        return 'ok', detail
    for ecls, cond in job.get('raises', {}).items():
        try:
            if eval_spec(cond, dict(pre_ns), pre_ns, glob):
                detail['why'] = 'contract demands %s when (%s) but the call returned normally' % (ecls, cond)
                return 'violation', detail
        except Exception:
            pass
    if job.get('ghost_post_native'):
        # ghost state after the call, computed by the contract's ghost code
        newg = {g: eval_spec(e, ns, pre_ns, glob) for g, e in job['ghost_post_native'].items()}
        ns.update(newg)
    for e in job['ensures']:
        try:
            ok = eval_spec(e, ns, pre_ns, glob)
        except Exception as ex:
            detail['why'] = 'postcondition not evaluable on the result: %s (%r)' % (e, ex)
            return 'violation', detail
        if not ok:
            detail['why'] = 'postcondition false: %s' % e
            return 'violation', detail
    return 'ok', detail


def domain(kind, depth=0):
    k = kind['k']
    if 'domain' in kind:
        return list(kind['domain'])
    if k == 'int':
        return [0, 1, 2, 3, 4, 5, 7, 10, 12, -1, -2, -3, -7, 13, 100]
    if k == 'byte':
        return [0, 1, 2, 0x7f, 0x80, 0xff, 0x41, 0x10]
    if k == 'real':
        return [0.0, 1.0, -1.0, 0.5, 2.0, 3.5, -2.25, 10.0, 1e-3, 1e6, 153.0, -153.0]
    if k == 'bool':
        return [False, True]
    if k == 'none':
        return [None]
    if k == 'const':
        return [None]
    if k == 'str':
        return ['', 'a', 'None', '1', '-1', ',', ' 2 ', 'x']
    if k == 'opt':
        return [None] + domain(kind['of'], depth)
    if k == 'tup':
        return [list(x) for x in itertools.islice(itertools.product(*[domain(kk, depth + 1)[:4] for kk in kind['of']]), 64)]
    if k == 'view':
        el = domain(kind['of'], depth + 1)
        out = [[]]
        rnd = random.Random(len(el))
        for n in (1, 2, 3, 4, 5, 8):
            for _ in range(6 if depth == 0 else 2):
                out.append([rnd.choice(el) for _ in range(n)])
        return out
    if k == 'rec':
        doms = {f: domain(fk, depth + 1) for f, fk in kind['fields'].items()}
        names = list(doms)
        total = 1
        for n in names:
            total *= len(doms[n])
        rnd = random.Random(7)
        out = []
        if total <= 400:
            for combo in itertools.product(*[doms[n] for n in names]):
                out.append(dict(zip(names, combo)))
        else:
            for _ in range(400):
                out.append({n: rnd.choice(doms[n]) for n in names})
        return out
    raise RuntimeError('domain of %r' % (kind,))


def search(job, budget_s=20.0, seed=0, max_cases=20000):
    """Small-scope / seeded random search for an input on which the real code violates the contract."""
    if job.get('native_gen'):
        module = import_target(job['file'])
        g = {}
        exec(compile(job['native_gen'], '<native_gen>', 'exec'), g)
        rnd = random.Random(seed)
        t0 = time.time()
        tried = 0
        attempts = 0
        while tried < max_cases and time.time() - t0 < budget_s and attempts < 50 * max_cases:
            attempts += 1
            try:
                args = g['gen'](rnd, module)
            except Exception:
                continue
            try:
                v, d = judge(job, None, prebuilt=args)
            except Exception as e:
                continue
            if v == 'skip':
                continue
            if v == 'known':
                job['_known_hits'] = job.get('_known_hits', 0) + 1
                continue
            tried += 1
            if v == 'violation':
                return d['inputs'], d, tried
        return None, None, tried
    names = list(job['params']) + list(job.get('ghost', {}))
    kinds = dict(job['params'])
    kinds.update(job.get('ghost', {}))
    doms = {n: domain(kinds[n]) for n in names}
    total = 1
    for n in names:
        total *= max(1, len(doms[n]))
    rnd = random.Random(seed)
    t0 = time.time()
    tried = 0
    skipped = 0

    def gen():
        if total <= max_cases:
            for combo in itertools.product(*[doms[n] for n in names]):
                yield dict(zip(names, combo))
        else:
            while True:
                yield {n: rnd.choice(doms[n]) for n in names}
    for inp in gen():
        if tried >= max_cases or time.time() - t0 > budget_s:
            break
        tried += 1
        try:
            v, d = judge(job, inp)
        except Exception as e:
            continue
        if v == 'skip':
            tried -= 1
            skipped += 1
            if skipped > 50 * max_cases:
                break
            continue
        if v == 'known':
            tried -= 1
            job['_known_hits'] = job.get('_known_hits', 0) + 1
            continue
        if v == 'violation':
            return inp, d, tried
    return None, None, tried


def run(job):
    """Entry of a replay file: re-run the recorded input (or search again), print, exit 1 on violation."""
    print('replay of obligation %s (property %s)' % (job.get('obligation'), job.get('property')))
    print('function: %s:%s' % (job['file'], job['func']))
    if job.get('solver_output'):
        print('verifier output: %s' % json.dumps(job['solver_output'])[:2000])
    inp = job.get('input')
    if job.get('native_gen'):
        inp2, d, tried = search(job, seed=int(os.environ.get('VERIF_SEED', '0') or 0))
        print('generator-driven search: %d inputs' % tried)
        if inp2 is None:
            print('no failing input found')
            return 0 if inp is None else 1
        print('input:', json.dumps(inp2, default=str))
        print('detail:', json.dumps(d, default=str)[:3000])
        return 1
    if inp is None:
        inp, d, tried = search(job, seed=int(os.environ.get('VERIF_SEED', '0') or 0))
        if inp is None:
            print('no failing input found by the bounded search (%d inputs); the obligation above is still undischarged' % tried)
            return 1
    v, d = judge(job, inp)
    print('input:', json.dumps(inp))
    print('verdict:', v)
    print('detail:', json.dumps(d, default=str)[:3000])
    return 1 if v == 'violation' else 0


if __name__ == '__main__':
    job = json.load(open(sys.argv[1]))
    mode = sys.argv[2] if len(sys.argv) > 2 else 'judge'
    if mode == 'judge':
        v, d = judge(job, job['input'])
        print(json.dumps({'verdict': v, 'detail': d}, default=str))
    elif mode == 'batch':
        # job = {'jobs': [...], 'budget_s': x}: cross-check every contract on concrete inputs
        out = []
        for j in job['jobs']:
            try:
                inp, d, tried = search(j, job.get('budget_s', 2.0), int(os.environ.get('VERIF_SEED', '0') or 0), job.get('max_cases', 3000))
                out.append({'name': j['name'], 'input': inp, 'detail': d, 'tried': tried, 'known_hits': j.get('_known_hits', 0)})
            except Exception as e:
                out.append({'name': j['name'], 'error': repr(e), 'tried': 0})
        print(json.dumps(out, default=str))
    elif mode == 'search':
        inp, d, tried = search(job, float(os.environ.get('PYVC_SEARCH_S', '20')), int(os.environ.get('VERIF_SEED', '0') or 0))
        print(json.dumps({'input': inp, 'detail': d, 'tried': tried}, default=str))
