"""Translation of the subset of Python `re` syntax used by the anchored code into z3 regular expressions.
Supported: literals, escapes (\\d \\s \\w \\. \\\\ etc.), '.', classes [a-z0-9 ] and negated classes, groups ( ) and (?: ),
alternation |, quantifiers * + ? {m} {m,n}, anchors ^ (only first) and $ (only last).  Anything else raises
Unsupported.  The translation denotes the language of re.match(...) followed by '$' / fullmatch semantics when the
pattern ends with '$'; capture groups are not modelled (only the language)."""
import z3
from .kinds import Unsupported


class _P:
    def __init__(self, s):
        self.s = s
        self.i = 0

    def peek(self):
        return self.s[self.i] if self.i < len(self.s) else None

    def next(self):
        c = self.s[self.i]
        self.i += 1
        return c


def _chr(c):
    return z3.Re(z3.StringVal(c))


def _range(a, b):
    return z3.Range(z3.StringVal(a), z3.StringVal(b))


def _union(xs):
    xs = list(xs)
    if not xs:
        return z3.Empty(z3.ReSort(z3.StringSort()))
    r = xs[0]
    for x in xs[1:]:
        r = z3.Union(r, x)
    return r


ANY = None


def _any():
    return z3.Range(z3.StringVal('\x00'), z3.StringVal('\xff'))


def _escape(c):
    if c == 'd':
        return _range('0', '9')
    if c == 's':
        return _union([_chr(x) for x in ' \t\n\r\x0b\x0c'])
    if c == 'w':
        return _union([_range('a', 'z'), _range('A', 'Z'), _range('0', '9'), _chr('_')])
    if c == 'S':
        return z3.Intersect(_any(), z3.Complement(_escape('s')))
    if c == 'D':
        return z3.Intersect(_any(), z3.Complement(_escape('d')))
    if c == 'W':
        return z3.Intersect(_any(), z3.Complement(_escape('w')))
    if c in 'bBAZ':
        raise Unsupported('regex escape \\%s' % c)
    m = {'n': '\n', 't': '\t', 'r': '\r'}
    return _chr(m.get(c, c))


def _class(p):
    neg = False
    if p.peek() == '^':
        p.next()
        neg = True
    items = []
    first = True
    while True:
        c = p.peek()
        if c is None:
            raise Unsupported('unterminated class')
        if c == ']' and not first:
            p.next()
            break
        first = False
        c = p.next()
        if c == '\\':
            items.append(_escape(p.next()))
            continue
        if p.peek() == '-' and p.i + 1 < len(p.s) and p.s[p.i + 1] != ']':
            p.next()
            d = p.next()
            items.append(_range(c, d))
        else:
            items.append(_chr(c))
    r = _union(items)
    if neg:
        r = z3.Intersect(_any(), z3.Complement(r))
    return r


def _atom(p):
    c = p.next()
    if c == '(':
        if p.peek() == '?':
            p.next()
            if p.next() != ':':
                raise Unsupported('regex group extension')
        r = _alt(p)
        if p.next() != ')':
            raise Unsupported('unbalanced group')
        return r
    if c == '[':
        return _class(p)
    if c == '.':
        return z3.Intersect(_any(), z3.Complement(_chr('\n')))
    if c == '\\':
        return _escape(p.next())
    if c in '*+?{':
        raise Unsupported('dangling quantifier')
    if c in '^$':
        raise Unsupported('anchor in the middle of a pattern')
    return _chr(c)


_COLLECT = None      # when a list: (z3 regex of the body, source text of the body) of every sub-expression repeated without bound


def _quant(p):
    i0 = p.i
    a = _atom(p)
    i1 = p.i
    while p.peek() is not None and p.peek() in '*+?{':
        c = p.next()
        if c in '*+' and _COLLECT is not None:
            _COLLECT.append((a, p.s[i0:i1]))
        if c == '*':
            a = z3.Star(a)
        elif c == '+':
            a = z3.Plus(a)
        elif c == '?':
            a = z3.Option(a)
        else:
            spec = ''
            while p.peek() != '}':
                spec += p.next()
            p.next()
            if ',' in spec:
                lo, hi = spec.split(',')
                lo = int(lo or 0)
                if hi == '' and _COLLECT is not None:
                    _COLLECT.append((a, p.s[i0:i1]))
                if hi == '':
                    a = z3.Concat(*([a] * lo + [z3.Star(a)])) if lo else z3.Star(a)
                else:
                    a = z3.Loop(a, lo, int(hi))
            else:
                a = z3.Loop(a, int(spec), int(spec))
        if p.peek() == '?':
            p.next()     # lazy quantifier: same language
    return a


def _seq(p):
    parts = []
    while p.peek() is not None and p.peek() not in '|)':
        if p.peek() == '$' and (p.i == len(p.s) - 1):
            break
        parts.append(_quant(p))
    if not parts:
        return z3.Re(z3.StringVal(''))
    if len(parts) == 1:
        return parts[0]
    return z3.Concat(*parts)


def _alt(p):
    alts = [_seq(p)]
    while p.peek() == '|':
        p.next()
        alts.append(_seq(p))
    return _union(alts)


def to_z3(pattern):
    """Returns (regex, anchored_end).  `pattern` is a str (bytes patterns are decoded latin-1 by the caller)."""
    if isinstance(pattern, bytes):
        pattern = pattern.decode('latin-1')
    p = _P(pattern)
    if p.peek() == '^':
        p.next()
    r = _alt(p)
    end = False
    if p.peek() == '$':
        p.next()
        end = True
    if p.peek() is not None:
        raise Unsupported('regex: trailing %r' % p.s[p.i:])
    return r, end


def match_lang(pattern):
    """Language of strings s with re.match(pattern, s) is not None."""
    r, end = to_z3(pattern)
    if end:
        # '$' also matches before a trailing newline
        return z3.Concat(r, z3.Option(_chr('\n')))
    return z3.Concat(r, z3.Star(_any()))


def unbounded_bodies(pattern):
    """(z3 regex, source text) of every sub-expression of `pattern` that is repeated without bound (x*, x+, x{n,})."""
    global _COLLECT
    _COLLECT = []
    try:
        to_z3(pattern)
        return list(_COLLECT)
    finally:
        _COLLECT = None


def splits_itself(body):
    """Formula over a fresh string w: w is a non-empty word of `body` that is also a concatenation of two or more non-empty
    words of `body`.  If satisfiable, the repetition body* matches w^n in exponentially many ways (a backtracking matcher
    such as CPython's re then needs exponential time on a near-miss): the classic nested-quantifier blow-up."""
    w = z3.String('w')
    ne = z3.Intersect(body, z3.Plus(_any()))
    return w, z3.And(z3.InRe(w, ne), z3.InRe(w, z3.Concat(ne, z3.Plus(ne))))
