"""Entry point of a property check:  python3-vt -m pyvc.check <ID> [--tier quick|thorough]

Exit 0: every obligation generated from /repo's current source was discharged (known findings are printed).
Exit 1: an obligation is refuted -> VIOLATION line with a replay file.
Exit 2: undecided (solver unknown / contract cannot be attached to the changed code) - never a VIOLATION.
Exit 3: the checker itself failed (unsupported construct, vacuity guard tripped).
"""
import importlib
import json
import os
import re
import subprocess
import sys
import time
import traceback

import z3

from .contract import Registry
from .engine import Engine, State
from . import solve, source, replay as replay_mod
from .kinds import Unsupported, ContractError

VERIF = os.path.dirname(os.path.dirname(os.path.abspath(__file__)))


def load_findings(pid):
    out = []
    p = os.path.join(VERIF, 'known_findings.jsonl')
    if os.path.exists(p):
        for line in open(p):
            line = line.strip()
            if not line or line.startswith('#') or line.startswith('fixed:'):
                continue
            e = json.loads(line)
            if e.get('property') == pid:
                e.setdefault('obligation', '<stand-in>')
                out.append(e)
    return out


def generate(reg, pid, only=None, extra_requires=None):
    """Run the symbolic executor over every contract to verify.  Returns (engine, problems)."""
    eng = Engine(reg, pid)
    problems = []
    per_func = {}
    for c in reg.verify:
        if only is not None and c.name not in only:
            continue
        n0 = len(eng.obligations)
        saved = list(c.requires)
        if extra_requires and c.name in extra_requires:
            c.requires = c.requires + extra_requires[c.name]
        try:
            eng.verify(c)
        except ContractError as e:
            problems.append(('undecided', c.name, 'contract cannot be attached: %s' % e))
        except Unsupported as e:
            problems.append(('unsupported', c.name, str(e)))
        except RecursionError as e:
            problems.append(('unsupported', c.name, 'recursion limit'))
        finally:
            c.requires = saved
        for ob in eng.obligations[n0:]:
            ob.contract = c
            if c.timeout:
                ob.timeout = c.timeout
            if getattr(c, 'solver_order', None):
                ob.solver_order = c.solver_order
        per_func[c.name] = len(eng.obligations) - n0
    if only is None:
        for lem in reg.lemmas:
            n0 = len(eng.obligations)
            try:
                eng.verify_lemma(lem)
            except (Unsupported, ContractError) as e:
                problems.append(('unsupported', lem.name, str(e)))
            for ob in eng.obligations[n0:]:
                ob.contract = lem
            per_func['lemma ' + lem.name] = len(eng.obligations) - n0
    return eng, problems, per_func


def group(obligations, results):
    groups = {}
    for ob, r in zip(obligations, results):
        g = groups.setdefault(ob.name, {'obs': [], 'res': [], 'expect_fail': ob.expect_fail, 'kind': ob.kind,
                                        'func': ob.func, 'note': ob.note, 'line': ob.line, 'contract': ob.contract})
        g['obs'].append(ob)
        g['res'].append(r)
    return groups


def main(argv=None):
    argv = argv or sys.argv[1:]
    pid = argv[0]
    tier = os.environ.get('VERIF_TIER', 'quick')
    if '--tier' in argv:
        tier = argv[argv.index('--tier') + 1]
    seed = int(os.environ.get('VERIF_SEED', '0') or 0)
    t0 = time.time()
    os.chdir(VERIF)
    sys.path.insert(0, VERIF)
    evidence_path = os.path.join(VERIF, 'evidence', '%s.json' % pid)
    if os.environ.get('PYVC_REPO', '/repo') != '/repo':
        evidence_path = os.path.join(VERIF, 'evidence', '%s.scratch.json' % pid)    # a run against a scratch copy is not evidence
    os.makedirs(os.path.dirname(evidence_path), exist_ok=True)
    os.makedirs(os.path.join(VERIF, 'replays', pid), exist_ok=True)
    mod = importlib.import_module('contracts.%s' % pid.lower())
    reg = Registry()
    mod.register(reg)
    timeout_s = 10 if tier == 'quick' else 60
    timeout_s = getattr(mod, 'TIMEOUT', {}).get(tier, timeout_s)
    level = getattr(mod, 'LEVEL', 'proof')

    exit_code = 0
    lines = []
    eng, problems, per_func = generate(reg, pid)
    if hasattr(mod, 'extra_obligations'):
        # closed obligations built by the contract module from literals read out of the real source (regex inclusion)
        from .engine import Obligation
        from .contract import Lemma
        try:
            for d in mod.extra_obligations(reg):
                ob = Obligation(d['name'], list(d['pc']), d['goal'], d.get('func', ''), 0, 'canary' if d.get('expect_fail') else 'lemma', d.get('note', ''))
                ob.expect_fail = bool(d.get('expect_fail'))
                ob.contract = Lemma(d.get('func', d['name']), {})
                ob.replay_code = d.get('replay_code')      # optional: program run on the real code with the solver's model as MODEL
                eng.obligations.append(ob)
                eng.functions_seen.add(d.get('func', ''))
        except (Unsupported, ContractError) as e:
            problems.append(('unsupported' if isinstance(e, Unsupported) else 'undecided', 'extra_obligations', str(e)))
    findings = load_findings(pid)
    finding_by_ob = {}
    for f in findings:
        finding_by_ob.setdefault(f['obligation'], []).append(f)
    # an obligation with a recorded finding is expected to fail: a short first attempt (is the finding stale, i.e. is it
    # proved now?), then the decisive query is the re-proof with the finding's region excluded.  `unknown` on the short
    # attempt is treated like the recorded refutation - the region-excluded proof below still has to succeed.
    for ob in eng.obligations:
        if ob.name in finding_by_ob and not getattr(ob, 'expect_fail', False):
            ob.timeout = 6
            ob.known_short = True
    results = solve.discharge(eng.obligations, timeout_s)
    for ob, r in zip(eng.obligations, results):
        if getattr(ob, 'known_short', False) and r['status'] == 'unknown':
            r['status'] = 'refuted-candidate'
            r['backend'] = 'known-finding (short attempt undecided)'
    groups = group(eng.obligations, results)

    n_obl = n_dis = 0
    refuted, unknown = [], []
    vac = []
    covers_ok = canaries_ok = 0
    solver_time = 0.0
    backends = {}
    for name, g in sorted(groups.items()):
        sts = [r['status'] for r in g['res']]
        solver_time += sum(r['time'] for r in g['res'])
        if g['expect_fail']:
            # covers and canaries: at least one path must be satisfiable / refute the false postcondition
            if any(s in ('refuted', 'refuted-candidate') for s in sts):
                if g['kind'] == 'cover':
                    covers_ok += 1
                else:
                    canaries_ok += 1
            elif all(s == 'proved' for s in sts):
                vac.append(name)
            else:
                # unknown on a satisfiability query: not shown vacuous, not shown live
                vac.append(name + ' (unknown)') if g['kind'] == 'canary' and False else None
            continue
        n_obl += 1
        for r in g['res']:
            backends[r['backend']] = backends.get(r['backend'], 0) + 1
        if all(s == 'proved' for s in sts):
            n_dis += 1
        elif any(s in ('refuted', 'refuted-candidate') for s in sts):
            refuted.append(name)
        else:
            unknown.append(name)

    # ---- refuted obligations: known finding (re-proved outside its region) or violation
    known_lines = []
    outside_region = []
    violations = []
    viol_lines_pre = []
    stale = []
    for name in refuted:
        g = groups[name]
        c = g['contract']
        fs = finding_by_ob.get(name, [])
        handled = False
        if fs:
            extra = {c.name: ['not (%s)' % f['region'] for f in fs]}
            eng2, prob2, _ = generate(reg, pid, only={c.name}, extra_requires=extra)
            obs2 = [o for o in eng2.obligations if o.name == name]
            res2 = solve.discharge(obs2, timeout_s)
            if not prob2 and obs2 and all(r['status'] == 'proved' for r in res2):
                handled = True
                n_dis += 1
                outside_region.append(name)
                for f in fs:
                    known_lines.append('KNOWN-FINDING: property=%s %s' % (pid, f['what']))
            elif not prob2 and all(r['status'] in ('proved', 'unknown') for r in res2):
                unknown.append(name + ' (outside known-finding region)')
                handled = True
                for f in fs:
                    known_lines.append('KNOWN-FINDING: property=%s %s' % (pid, f['what']))
        if not handled:
            violations.append(name)
    # findings whose obligation is now proved are stale (the defect is gone): say so, exit code unchanged
    for obname, fs in finding_by_ob.items():
        if obname in groups and obname not in refuted and obname not in unknown:
            for f in fs:
                stale.append('KNOWN-FINDING-STALE: property=%s %s (obligation %s is now discharged)' % (pid, f['what'], obname))

    # ---- ledger: obligations discharged on the committed unchanged tree + hashes of the files they were generated from.
    # An obligation of the ledger that is no longer discharged (solver unknown, or the contract cannot be attached any
    # more) AFTER an anchored file was edited is reported as a violation (no counterexample: no-failing-input-found);
    # on unedited files the same outcome is only UNDECIDED, so solver load can never raise an alarm on the pinned tree.
    import hashlib
    ledger_path = os.path.join(VERIF, 'ledger', '%s.json' % pid)
    file_hashes = {}
    for rp, m in source._modules.items():
        file_hashes[rp] = hashlib.sha256(m.text.encode('utf-8')).hexdigest()
    ledger = None
    if os.path.exists(ledger_path):
        ledger = json.load(open(ledger_path))
    if '--update-ledger' in argv:
        os.makedirs(os.path.dirname(ledger_path), exist_ok=True)
        good = sorted(n for n, g in groups.items() if not g['expect_fail'] and n not in refuted and n not in unknown)
        json.dump({'property': pid, 'obligations': good + sorted(outside_region), 'files': file_hashes}, open(ledger_path, 'w'), indent=1)
        ledger = json.load(open(ledger_path))
    edited = []
    if ledger is not None:
        edited = sorted(rp for rp, h in ledger['files'].items() if file_hashes.get(rp) != h)
        led = set(ledger['obligations'])
        regress = [n for n in unknown if n.split(' (')[0] in led]
        missing = [n for n in led if n not in groups]
        if edited and regress:
            # retry once with the thorough budget before calling it a regression
            obs_r = [o for n in regress for o in groups[n.split(' (')[0]]['obs']]
            if len(regress) <= 6:
                # (the first pass already included the patient second pass: this retry is one more pass at a moderate budget)
                for o_ in obs_r:
                    if getattr(o_, 'timeout', None):
                        o_.timeout = min(o_.timeout * 1.5, 90)
                res_r = solve.discharge(obs_r, max(30, timeout_s * 2), second_pass=False)
                still = set(o.name for o, r in zip(obs_r, res_r) if r['status'] != 'proved')
            else:
                # many ledger obligations undecided at once on an edited file: the first pass (with its own patient retry)
                # stands; retrying dozens of false obligations with long budgets only makes a broken tree slow to report
                still = set(o.name for o in obs_r)
            for n in list(regress):
                if n.split(' (')[0] not in still:
                    unknown.remove(n)
                    n_dis += 1
                else:
                    unknown.remove(n)
                    violations.append(n.split(' (')[0])

    # ---- replay of violations
    viol_lines = list(viol_lines_pre)
    for name in violations:
        g = groups[name]
        idxs = [i for i, r in enumerate(g['res']) if r['status'] in ('refuted', 'refuted-candidate')]
        idx = idxs[0] if idxs else [i for i, r in enumerate(g['res']) if r['status'] != 'proved'][0]
        path, found = replay_mod.make_replay(pid, name, g['obs'][idx], g['res'][idx], g['contract'], reg, mod)
        if not found and not any(r['status'] == 'refuted' for r in g['res']):
            # every non-proved instance is only a CANDIDATE (a model with 2**k left uninterpreted after the full query timed
            # out) and it did not replay on the real code: that is an undecided obligation, not a refutation.  It becomes a
            # violation only through the ledger rule (discharged on the committed tree, file edited since).
            if not (ledger is not None and edited and name in set(ledger['obligations'])):
                unknown.append(name + ' (candidate counterexample did not replay)')
                continue
        line = 'VIOLATION property=%s replay=%s' % (pid, path)
        if not found:
            line += ' obligation=%s no-failing-input-found' % name
        viol_lines.append(line)

    # ---- CPython cross-check of the encoder: the real functions on concrete inputs, judged by the same contracts
    cross = {}
    if not os.environ.get('PYVC_NO_CROSSCHECK'):
        jobs = []
        # contracts under proof, plus ASSUMED contracts that ask to be tested natively (crosscheck='assumed': bounded, listed
        # as assumptions; a concrete input on which the real code breaks an assumed contract is reported like any witness)
        assumed_tested = [c for c in reg.contracts.values() if getattr(c, 'crosscheck', True) == 'assumed' and c not in reg.verify]
        for c in list(reg.verify) + assumed_tested:
            if getattr(c, 'crosscheck', True) is False:
                continue
            if (c.ghost or c.ghost_init) and not c.native_gen:
                continue     # ghost state cannot be guessed natively without a generator
            try:
                j = replay_mod.job_of(c, reg, mod, pid, '<cross-check>')
                j['name'] = c.name
                j['known_regions'] = [f['region'] for f in findings if f.get('function') == c.name and f.get('native_region', True)]
                j['known_region_kinds'] = ['exc' if re.search(r'/(noexc|raises|noraise):', f.get('obligation', '')) else 'post'
                                           for f in findings if f.get('function') == c.name and f.get('native_region', True)]
                jobs.append(j)
            except Unsupported:
                continue
        if jobs:
            r = replay_mod.run_native({'jobs': jobs, 'budget_s': 1.0 if tier == 'quick' else 15.0,
                                       'max_cases': 2000 if tier == 'quick' else 50000}, 'batch', timeout=60 + len(jobs) * (3 if tier == 'quick' else 20))
            if isinstance(r, list):
                for e in r:
                    cross[e['name']] = e.get('tried', 0)
                    if e.get('known_hits'):
                        for f in findings:
                            if f.get('function') == e['name']:
                                l = 'KNOWN-FINDING: property=%s %s' % (pid, f['what'])
                                if l not in known_lines:
                                    known_lines.append(l)
                    if e.get('input') is not None:
                        # the real code violates the contract on a concrete input
                        obs_of_fn = [n for n, g in groups.items() if g['contract'].name == e['name'] and not g['expect_fail']]
                        if any(n in violations for n in obs_of_fn):
                            continue      # already reported through the failed obligation
                        fs = [f for f in findings if f.get('function') == e['name']]
                        glob_known = False
                        if fs:
                            # known finding regions are evaluated natively on the failing input by the search itself
                            glob_known = any(n in refuted for n in obs_of_fn)
                        if glob_known:
                            continue
                        fn_problem = any(k in ('unsupported', 'undecided') and 'encoder disagreement' not in m_ for k, fn, m_ in problems)
                        # (when an obligation of ANOTHER function of this check failed, a caller verified against that callee's
                        # contract can well fail natively: that is a concrete failing input for the violation, not a disagreement)
                        if obs_of_fn and not fn_problem and not violations and all(n not in refuted and n not in unknown for n in obs_of_fn):
                            problems.append(('unsupported', e['name'], 'encoder disagreement: every obligation was discharged but the real '
                                             'code violates the contract on %s (%s)' % (json.dumps(e['input'])[:300], str(e.get('detail'))[:300])))
                        else:
                            p = os.path.join(VERIF, 'replays', pid, re.sub(r'[^A-Za-z0-9_.-]', '_', e['name']) + '.crosscheck.py')
                            job = [j for j in jobs if j['name'] == e['name']][0]
                            job['input'] = e['input']
                            with open(p, 'w') as f:
                                f.write('#!/venv/bin/python\n\"\"\"Cross-check witness for %s (%s): %s\"\"\"\nimport json, sys\nsys.path.insert(0, %r)\nfrom pyvc import native\nJOB = json.loads(%r)\nsys.exit(native.run(JOB))\n'
                                        % (e['name'], pid, str(e.get('detail'))[:500].replace('"""', ''), VERIF, json.dumps(job, default=str)))
                            viol_lines.append('VIOLATION property=%s replay=%s' % (pid, p))
                            unknown[:] = [u for u in unknown if groups.get(u, {}).get('contract') is None or groups[u]['contract'].name != e['name']]
            else:
                problems.append(('unsupported', 'cross-check', str(r)[:500]))

    # ---- bounded stand-ins and closed checks supplied by the contract module (never counted as proved)
    standins = []
    if hasattr(mod, 'standins'):
        try:
            standins = mod.standins(tier, seed) or []
        except Exception as e:   # pragma: no cover
            problems.append(('unsupported', 'standins', 'stand-in crashed: %s' % e))
            traceback.print_exc()
    for s in standins:
        if s.get('violation'):
            p = os.path.join(VERIF, 'replays', pid, re.sub(r'[^A-Za-z0-9_.-]', '_', s['name']) + '.py')
            os.makedirs(os.path.dirname(p), exist_ok=True)
            with open(p, 'w') as f:
                f.write(s.get('replay', '# %s\n' % s['violation']))
            known = [kf for kf in findings if kf.get('standin') == s['name'] and kf.get('witness') == s.get('witness')]
            if known:
                known_lines.append('KNOWN-FINDING: property=%s %s' % (pid, known[0]['what']))
            else:
                viol_lines.append('VIOLATION property=%s replay=%s' % (pid, p))

    # findings recorded as narrowly scoped exclusions inside a stand-in script (input classes generated but not judged)
    for f in findings:
        if f.get('standin_script') and f.get('exclusion_id'):
            try:
                txt = open(os.path.join(VERIF, 'standins', f['standin_script'])).read()
            except OSError:
                txt = ''
            if ("'%s'" % f['exclusion_id']) in txt or ('"%s"' % f['exclusion_id']) in txt:
                l = 'KNOWN-FINDING: property=%s %s' % (pid, f['what'])
                if l not in known_lines:
                    known_lines.append(l)
            else:
                stale.append('KNOWN-FINDING-STALE: property=%s %s (exclusion %s no longer present in %s)' % (pid, f['what'], f['exclusion_id'], f['standin_script']))
    for l in known_lines:
        print(l)
    for l in stale:
        print(l)
    for kind, fn, msg in problems:
        print('%s property=%s function=%s %s' % ('UNDECIDED' if kind == 'undecided' else 'CHECKER-ERROR', pid, fn, msg))
    for name in unknown:
        g = groups.get(name.split(' (')[0])
        hist = ''
        if g:
            hist = '; '.join(' '.join('%s:%s:%ss' % t for t in r.get('tried', [])) for r in g['res'] if r['status'] != 'proved')[:400]
        print('UNDECIDED property=%s obligation=%s stages=[%s]' % (pid, name, hist))
    for v in vac:
        if v:
            print('CHECKER-ERROR property=%s vacuity guard: %s was discharged (it must fail)' % (pid, v))
    for l in viol_lines:
        print(l)

    if viol_lines:
        exit_code = 1
    elif any(k == 'unsupported' for k, _, _ in problems) or [v for v in vac if v] or n_obl == 0:
        exit_code = 3
    elif unknown or problems:
        exit_code = 2

    # ---- evidence
    samples = []
    for name, g in list(sorted(groups.items()))[:400]:
        if g['expect_fail']:
            continue
        if len(samples) >= 4:
            break
        ob = g['obs'][0]
        if g['kind'] in ('post', 'inv-keep'):
            samples.append({'obligation': name, 'source_line': ob.line, 'clause': ob.note,
                            'paths': len(g['obs']), 'status': g['res'][0]['status'], 'backend': g['res'][0]['backend'],
                            'smt2_head': solve.to_smt2(ob.pc, ob.goal)[-900:]})
    per_ob = {name: {'paths': len(g['obs']), 'status': sorted(set(r['status'] for r in g['res'])),
                     'backend': sorted(set(r['backend'] for r in g['res'])), 'time_s': round(sum(r['time'] for r in g['res']), 3),
                     'clause': g['note'][:200]}
              for name, g in groups.items() if not g['expect_fail']}
    dropped = {}
    for rp, m in source._modules.items():
        if m.dropped['decorators']:
            dropped[rp] = ['decorator %s on %s' % (d, f) for f, d in m.dropped['decorators']][:20]
    trusted = sorted(eng.trusted_used | set(getattr(mod, 'TRUSTED', [])))
    assumptions = sorted(eng.assumptions_used | set(getattr(mod, 'ASSUMPTIONS', [])))
    cov = {
        'obligations': n_obl,
        'discharged': n_dis,
        'vc_instances': sum(len(g['obs']) for g in groups.values() if not g['expect_fail']),
        'checker_cmd': 'python3-vt -m pyvc.check %s --tier %s' % (pid, tier),
        'trusted_base': trusted,
        'functions_under_contract': sorted(eng.functions_seen),
        'helpers_executed_from_their_real_body_without_contract': sorted(getattr(eng, 'auto_inlined', set())),
        'obligations_per_function': per_func,
        'backends': backends,
        'solver_time_s': round(solver_time, 2),
        'per_obligation': per_ob,
        'covers_satisfiable': covers_ok,
        'canaries_failed_as_expected': canaries_ok,
        'ledger': {'present': ledger is not None, 'edited_files': edited},
        'known_findings': known_lines,
        'discharged_only_outside_known_finding_region': outside_region,
        'undecided': unknown,
        'refuted': refuted,
        'checker_problems': ['%s %s: %s' % p for p in problems],
        'cross_check_inputs': cross,
        'bounded_standins': [{k: v for k, v in s.items() if k != 'replay'} for s in standins],
        'extraction_drops': 'docstrings, comments, type annotations, logging/print calls (arguments not evaluated); ' +
                            'decorators recorded: %s' % json.dumps(dropped),
        'samples': samples or [{'note': 'no post/inv obligations'}],
        'explanation': getattr(mod, 'EXPLANATION', ''),
        'timeout_s_per_obligation': timeout_s,
    }
    if level != 'proof':
        cov['evaluations'] = max(1, cov['vc_instances'])
        cov['distinct_nontrivial'] = max(2, n_obl)
    ev = {'property_id': pid, 'tier': tier, 'seed': seed, 'level': level, 'coverage': cov,
          'assumptions': assumptions, 'wall_s': round(time.time() - t0, 2), 'violations': len(viol_lines)}
    with open(evidence_path, 'w') as f:
        json.dump(ev, f, indent=1, default=str)
    print('%s: %d/%d obligations discharged (%d VC instances), %d covers, %d canaries, %d stand-ins, exit %d, %.1fs'
          % (pid, n_dis, n_obl, cov['vc_instances'], covers_ok, canaries_ok, len(standins), exit_code, time.time() - t0))
    return exit_code


def _main_guarded():
    try:
        return main()
    except SystemExit:
        raise
    except BaseException as e:      # a crash of the checker is a checker error (exit 3), never a verdict
        traceback.print_exc()
        pid = sys.argv[1] if len(sys.argv) > 1 else '?'
        print('CHECKER-ERROR property=%s the checker crashed: %s: %s' % (pid, type(e).__name__, str(e)[:300]))
        sys.exit(3)


if __name__ == '__main__':
    sys.exit(_main_guarded())
